"""E0/E2/E3: source model, import/class resolution, guarded path enumeration, term normalisation.

Nothing from /repo is imported or executed: every fact comes from `ast` over the files on disk.
"""
from __future__ import annotations

import ast
import copy
import hashlib
import os
from dataclasses import dataclass, field
from typing import Dict, Iterable, List, Optional, Tuple


from .desugar import desugar_module


class AnalysisError(Exception):
    """The analyser cannot decide (anchor vanished, idiom not recognised): exit 2, never a violation."""


PKG_DIRS = ("optimum/quanto", "external/awq")


# ----------------------------------------------------------------------------------------------
# Source model
# ----------------------------------------------------------------------------------------------
@dataclass
class ModuleInfo:
    name: str  # dotted name, e.g. optimum.quanto.tensor.qbytes
    rel: str  # path relative to the repo root
    path: str
    src: str
    tree: ast.Module
    is_pkg: bool
    defs: Dict[str, ast.AST] = field(default_factory=dict)  # top-level name -> def / assign value
    imports: Dict[str, Tuple[str, Optional[str]]] = field(default_factory=dict)  # local -> (module, name|None)
    stars: List[str] = field(default_factory=list)
    all: Optional[List[str]] = None


@dataclass
class ClassInfo:
    name: str
    mod: ModuleInfo
    node: ast.ClassDef
    bases: List[str]  # textual bases

    def own(self, name) -> Optional[ast.FunctionDef]:
        for n in self.node.body:
            if isinstance(n, (ast.FunctionDef, ast.AsyncFunctionDef)) and n.name == name:
                return n
        return None

    def own_assign(self, name):
        for n in self.node.body:
            if isinstance(n, ast.Assign):
                for t in n.targets:
                    if isinstance(t, ast.Name) and t.id == name:
                        return n.value
        return None


class Repo:
    def __init__(self, root: str):
        self.root = os.path.abspath(root)
        self.modules: Dict[str, ModuleInfo] = {}
        self.by_rel: Dict[str, ModuleInfo] = {}
        self.classes: Dict[str, List[ClassInfo]] = {}
        self.units = {"files": 0, "classes": 0, "functions": 0, "lines": 0}
        self._load()

    # -- loading -------------------------------------------------------------------------------
    def _load(self):
        for d in PKG_DIRS:
            base = os.path.join(self.root, d)
            if not os.path.isdir(base):
                raise AnalysisError(f"package directory vanished: {d}")
            for dirpath, dirnames, filenames in os.walk(base):
                dirnames[:] = sorted(x for x in dirnames if x not in ("__pycache__", "build"))
                for fn in sorted(filenames):
                    if not fn.endswith(".py"):
                        continue
                    path = os.path.join(dirpath, fn)
                    rel = os.path.relpath(path, self.root)
                    try:
                        src = open(path, encoding="utf-8").read()
                        tree = desugar_module(ast.parse(src, filename=rel))
                    except SyntaxError as e:  # a file that does not parse cannot be analysed
                        raise AnalysisError(f"cannot parse {rel}: {e}")
                    is_pkg = fn == "__init__.py"
                    parts = rel[:-3].split(os.sep)
                    if is_pkg:
                        parts = parts[:-1]
                    name = ".".join(parts)
                    mi = ModuleInfo(name, rel, path, src, tree, is_pkg)
                    self.modules[name] = mi
                    self.by_rel[rel] = mi
                    self.units["files"] += 1
                    self.units["lines"] += src.count("\n")
        for mi in self.modules.values():
            self._index(mi)

    def _index(self, mi: ModuleInfo):
        for n in mi.tree.body:
            if isinstance(n, (ast.FunctionDef, ast.AsyncFunctionDef)):
                mi.defs[n.name] = n
            elif isinstance(n, ast.ClassDef):
                mi.defs[n.name] = n
                ci = ClassInfo(n.name, mi, n, [ast.unparse(b) for b in n.bases])
                self.classes.setdefault(n.name, []).append(ci)
                self.units["classes"] += 1
            elif isinstance(n, ast.Assign):
                for t in n.targets:
                    if isinstance(t, ast.Name):
                        mi.defs[t.id] = n.value
                        if t.id == "__all__":
                            mi.all = self._eval_all(n.value)
            elif isinstance(n, ast.ImportFrom):
                target = self._abs_module(mi, n.module, n.level)
                for a in n.names:
                    if a.name == "*":
                        mi.stars.append(target)
                    else:
                        mi.imports[a.asname or a.name] = (target, a.name)
            elif isinstance(n, ast.Import):
                for a in n.names:
                    mi.imports[a.asname or a.name.split(".")[0]] = (a.name, None)
        for n in ast.walk(mi.tree):
            if isinstance(n, (ast.FunctionDef, ast.AsyncFunctionDef)):
                self.units["functions"] += 1

    @staticmethod
    def _eval_all(v):
        out = []

        def rec(e):
            if isinstance(e, (ast.List, ast.Tuple)):
                for x in e.elts:
                    if isinstance(x, ast.Constant) and isinstance(x.value, str):
                        out.append(x.value)
                    else:
                        out.append(None)
            elif isinstance(e, ast.BinOp) and isinstance(e.op, ast.Add):
                rec(e.left)
                rec(e.right)
            else:
                out.append(None)  # dynamic part (e.g. qtype names)

        rec(v)
        return out

    def _abs_module(self, mi: ModuleInfo, module: Optional[str], level: int) -> str:
        if level == 0:
            return module or ""
        parts = mi.name.split(".")
        if not mi.is_pkg:
            parts = parts[:-1]
        if level > 1:
            parts = parts[: len(parts) - (level - 1)]
        if module:
            parts = parts + module.split(".")
        return ".".join(parts)

    # -- resolution ----------------------------------------------------------------------------
    def exports(self, mi: ModuleInfo, name: str) -> bool:
        if mi.all is not None:
            if name in mi.all:
                return True
            if None in mi.all:  # dynamic __all__: fall through to definitions
                return name in mi.defs
            return False
        return not name.startswith("_") and (name in mi.defs or name in mi.imports or self._star_lookup(mi, name, set()) is not None)

    def _star_lookup(self, mi, name, seen):
        for target in mi.stars:
            tm = self.modules.get(target)
            if tm is None or tm.name in seen:
                continue
            seen.add(tm.name)
            r = self.resolve(tm, name, seen, star=True)
            if r is not None:
                return r
        return None

    def resolve(self, mi: ModuleInfo, name: str, seen=None, star=False):
        """Resolve a (possibly imported) top-level name to (ModuleInfo, node). None when external."""
        seen = seen if seen is not None else set()
        if name in mi.defs and (not star or self.exports(mi, name) or mi.all is None):
            if star and mi.all is not None and name not in mi.all and None not in mi.all:
                pass
            else:
                return mi, mi.defs[name]
        if name in mi.imports:
            target, orig = mi.imports[name]
            tm = self.modules.get(target)
            if tm is None:
                # maybe "from .pkg import submodule"
                sub = self.modules.get(f"{target}.{orig}") if orig else None
                if sub is not None:
                    return sub, sub.tree
                return None
            if orig is None:
                return tm, tm.tree
            sub = self.modules.get(f"{target}.{orig}")
            if orig not in tm.defs and orig not in tm.imports and sub is not None:
                return sub, sub.tree
            return self.resolve(tm, orig, seen)
        return self._star_lookup(mi, name, seen)

    def cls(self, name: str, hint: Optional[ModuleInfo] = None) -> ClassInfo:
        if hint is not None:
            r = self.resolve(hint, name)
            if r is not None and isinstance(r[1], ast.ClassDef):
                for ci in self.classes.get(r[1].name, []):
                    if ci.node is r[1]:
                        return ci
        cands = self.classes.get(name, [])
        if len(cands) != 1:
            raise AnalysisError(f"class anchor {name!r}: {len(cands)} definitions found")
        return cands[0]

    def has_cls(self, name):
        return len(self.classes.get(name, [])) == 1

    def mro(self, ci: ClassInfo) -> List[ClassInfo]:
        """Linearisation over repo classes (single inheritance chains + mixins; C3 not needed: no diamonds)."""
        out, seen = [], set()

        def rec(c):
            if id(c.node) in seen:
                return
            seen.add(id(c.node))
            out.append(c)
            for b in c.bases:
                bn = b.split(".")[-1]
                r = self.resolve(c.mod, b) if "." not in b else None
                if r is not None and isinstance(r[1], ast.ClassDef):
                    for x in self.classes.get(r[1].name, []):
                        if x.node is r[1]:
                            rec(x)
                elif bn in self.classes and len(self.classes[bn]) == 1 and r is None and "." not in b:
                    pass

        rec(ci)
        return out

    def external_bases(self, ci: ClassInfo) -> List[str]:
        out = []
        for c in self.mro(ci):
            for b in c.bases:
                r = self.resolve(c.mod, b) if "." not in b else None
                if r is None or not isinstance(r[1], ast.ClassDef):
                    out.append(self.qualify(c.mod, b))
        return out

    def qualify(self, mi: ModuleInfo, dotted: str) -> str:
        """Expand the head of a dotted name through imports of external modules (torch.autograd.Function...)."""
        head, _, rest = dotted.partition(".")
        if head in mi.imports:
            target, orig = mi.imports[head]
            if target not in self.modules:
                full = target if orig is None else f"{target}.{orig}"
                return full + ("." + rest if rest else "")
        return dotted

    def method(self, ci: ClassInfo, name: str) -> Optional[Tuple[ClassInfo, ast.FunctionDef]]:
        for c in self.mro(ci):
            f = c.own(name)
            if f is not None:
                return c, f
        return None

    def subclasses(self, ci: ClassInfo) -> List[ClassInfo]:
        out = []
        for lst in self.classes.values():
            for c in lst:
                if c is not ci and any(x.node is ci.node for x in self.mro(c)):
                    out.append(c)
        return out

    def func(self, name: str, hint: Optional[ModuleInfo] = None) -> Tuple[ModuleInfo, ast.FunctionDef]:
        if hint is not None:
            r = self.resolve(hint, name)
            if r is not None and isinstance(r[1], ast.FunctionDef):
                return r
        cands = [(m, m.defs[name]) for m in self.modules.values() if isinstance(m.defs.get(name), ast.FunctionDef)]
        if len(cands) != 1:
            raise AnalysisError(f"function anchor {name!r}: {len(cands)} definitions found")
        return cands[0]

    def module_of(self, node: ast.AST) -> ModuleInfo:
        for m in self.modules.values():
            for n in ast.walk(m.tree):
                if n is node:
                    return m
        raise AnalysisError("node not in any module")

    def digest(self) -> str:
        h = hashlib.sha256()
        for rel in sorted(self.by_rel):
            h.update(rel.encode())
            h.update(self.by_rel[rel].src.encode())
        return h.hexdigest()[:16]


def site(mi: ModuleInfo, node: ast.AST, func: str = "") -> str:
    return f"{mi.rel}:{getattr(node, 'lineno', 0)}" + (f" ({func})" if func else "")


# ----------------------------------------------------------------------------------------------
# Canonical spelling: U(e) renders an expression in a canonical form, and comparing that rendering with a plain string
# canonicalises the string first, so that rules are insensitive to behaviour-preserving spellings
# (x.size() / x.shape, torch.round(x) / x.round(), keyword / positional arguments of package functions, 1 << n / 2 ** n ...).
# ----------------------------------------------------------------------------------------------
_METHOD_FORM = {"round", "clamp", "clip", "abs", "amax", "amin", "squeeze", "reshape", "permute", "t", "transpose", "flatten", "neg", "negative", "contiguous", "unsqueeze",
                "clamp_min", "clamp_max", "floor", "ceil", "trunc", "nan_to_num", "isnan", "all", "any", "eq", "ne", "sum", "mean", "to"}
_SIGNATURES: Dict[str, ast.FunctionDef] = {}  # unique package function / constructor names -> def (filled by set_active_repo)
_NAMEDTUPLES: Dict[str, List[str]] = {}  # NamedTuple classes of the package: name -> field names (filled by set_active_repo)


def _nt_fields(call):
    """Field -> value of a call to a NamedTuple class of the package (None if it is not one, or not bindable)."""
    if not (isinstance(call, ast.Call) and isinstance(call.func, ast.Name) and call.func.id in _NAMEDTUPLES):
        return None
    fields = _NAMEDTUPLES[call.func.id]
    if any(isinstance(a, ast.Starred) for a in call.args) or any(k.arg is None for k in call.keywords) or len(call.args) > len(fields):
        return None
    out = dict(zip(fields, call.args))
    for k in call.keywords:
        if k.arg not in fields or k.arg in out:
            return None
        out[k.arg] = k.value
    return out if len(out) == len(fields) else None


def _literal_elements(a):
    """Elements of a literal sequence, or of a comprehension over a literal sequence with a single name target (expanded)."""
    if isinstance(a, (ast.List, ast.Tuple, ast.Set)) and not any(isinstance(e, ast.Starred) for e in a.elts):
        return list(a.elts)
    if isinstance(a, (ast.GeneratorExp, ast.ListComp)) and len(a.generators) == 1:
        g = a.generators[0]
        if not g.ifs and not g.is_async and isinstance(g.iter, (ast.Tuple, ast.List)) and isinstance(g.target, ast.Name) and not any(isinstance(e, ast.Starred) for e in g.iter.elts):
            return [subst(copy.deepcopy(a.elt), {g.target.id: e}) for e in g.iter.elts]
    return None


_DEFAULT_KW = {
    "round": {"decimals": "0"}, "div": {"rounding_mode": "None"}, "divide": {"rounding_mode": "None"}, "true_divide": {"rounding_mode": "None"},
    "nan_to_num": {"posinf": "None", "neginf": "None"}, "add": {"alpha": "1"}, "sub": {"alpha": "1"},
    "to": {"non_blocking": "False", "copy": "False", "memory_format": "torch.preserve_format"}, "type": {"non_blocking": "False"},
    "clone": {"memory_format": "torch.preserve_format"}, "contiguous": {"memory_format": "torch.contiguous_format"}, "copy_": {"non_blocking": "False"},
    "clamp": {"min": "None", "max": "None"}, "amax": {"keepdim": "False"}, "amin": {"keepdim": "False"}, "sum": {"keepdim": "False"}, "cat": {"dim": "0"}, "stack": {"dim": "0"},
    "zeros": {"requires_grad": "False"}, "ones": {"requires_grad": "False"}, "empty": {"requires_grad": "False"}, "tensor": {"requires_grad": "False"},
}
_CAST_METHODS = {"short": "int16", "int": "int32", "long": "int64", "char": "int8", "byte": "uint8", "half": "float16", "float": "float32", "double": "float64", "bfloat16": "bfloat16"}


class _Canon(ast.NodeTransformer):
    def visit_Call(self, node):
        self.generic_visit(node)
        f = node.func
        # int(p) / bool(p) of a bare name or attribute: the identity on the values that reach it in this code base (sizes, bit widths,
        # flags are ints / bools already); a cast applied to a computed expression is kept
        if isinstance(f, ast.Name) and f.id in ("int", "bool") and len(node.args) == 1 and not node.keywords and _is_plain_ref(node.args[0]):
            return node.args[0]
        # bool(<comparison / boolean operation / isinstance / not>) -> the expression; str(x.name) -> x.name
        if isinstance(f, ast.Name) and f.id == "bool" and len(node.args) == 1 and not node.keywords:
            a0 = node.args[0]
            if isinstance(a0, (ast.Compare, ast.BoolOp)) or (isinstance(a0, ast.UnaryOp) and isinstance(a0.op, ast.Not)) or (isinstance(a0, ast.Call) and isinstance(a0.func, ast.Name) and a0.func.id in ("isinstance", "issubclass", "hasattr", "callable")):
                return a0
        if isinstance(f, ast.Name) and f.id == "str" and len(node.args) == 1 and not node.keywords and isinstance(node.args[0], ast.Attribute) and node.args[0].attr in ("name", "__name__"):
            return node.args[0]
        # x.clone().numel() -> x.numel(): the element count / rank queries do not see a copy or graph-membership call (as the attribute forms below)
        if isinstance(f, ast.Attribute) and f.attr in ("numel", "nelement", "dim", "size", "element_size") and isinstance(f.value, ast.Call) and isinstance(f.value.func, ast.Attribute) \
                and f.value.func.attr in ("detach", "clone") and not f.value.args and not f.value.keywords:
            node = ast.Call(func=ast.Attribute(value=f.value.func.value, attr=f.attr, ctx=ast.Load()), args=node.args, keywords=node.keywords)
            f = node.func
        # tuple(x.stride()) -> x.stride()  (already a tuple)
        if isinstance(f, ast.Name) and f.id == "tuple" and len(node.args) == 1 and not node.keywords and isinstance(node.args[0], ast.Call) \
                and isinstance(node.args[0].func, ast.Attribute) and node.args[0].func.attr == "stride" and not node.args[0].args:
            return node.args[0]
        # keywords that spell out the documented default of a torch function / tensor method are dropped: `torch.round(x, decimals=0)` is `torch.round(x)`
        if node.keywords and isinstance(f, ast.Attribute) and f.attr in _DEFAULT_KW and (not isinstance(f.value, ast.Name) or f.value.id != "self"):
            dk = _DEFAULT_KW[f.attr]
            kept = [k for k in node.keywords if not (k.arg in dk and ast.unparse(k.value) == dk[k.arg])]
            if len(kept) != len(node.keywords):
                node = ast.Call(func=f, args=node.args, keywords=kept)
        # seq.pop(-1) is seq.pop()
        if isinstance(f, ast.Attribute) and f.attr == "pop" and len(node.args) == 1 and not node.keywords and isinstance(node.args[0], ast.UnaryOp) and isinstance(node.args[0].op, ast.USub) \
                and isinstance(node.args[0].operand, ast.Constant) and node.args[0].operand.value == 1:
            return ast.Call(func=f, args=[], keywords=[])
        # shape queries have one canonical spelling: x.dim() -> x.ndim; x.size() -> x.shape; x.size(i) -> x.shape[i]; len(x.shape) -> x.ndim
        if isinstance(f, ast.Attribute) and f.attr == "dim" and not node.args and not node.keywords:
            return ast.Attribute(value=f.value, attr="ndim", ctx=ast.Load())
        if isinstance(f, ast.Attribute) and f.attr == "size" and not node.keywords and len(node.args) <= 1 and not any(isinstance(a, ast.Starred) for a in node.args):
            shp = ast.Attribute(value=f.value, attr="shape", ctx=ast.Load())
            return shp if not node.args else ast.Subscript(value=shp, slice=node.args[0], ctx=ast.Load())
        if isinstance(f, ast.Name) and f.id == "len" and len(node.args) == 1 and not node.keywords and isinstance(node.args[0], ast.Attribute) and node.args[0].attr == "shape":
            return ast.Attribute(value=node.args[0].value, attr="ndim", ctx=ast.Load())
        # dtype conversions have one canonical spelling: x.short() / x.float() / ... -> x.to(torch.int16) / x.to(torch.float32) / ...; x.type(d) -> x.to(d)
        if isinstance(f, ast.Attribute) and not node.keywords and not node.args and f.attr in _CAST_METHODS:
            return ast.Call(func=ast.Attribute(value=f.value, attr="to", ctx=ast.Load()), args=[ast.parse("torch." + _CAST_METHODS[f.attr], mode="eval").body], keywords=[])
        if isinstance(f, ast.Attribute) and f.attr == "type" and len(node.args) == 1 and not node.keywords and not isinstance(node.args[0], ast.Constant):
            return ast.Call(func=ast.Attribute(value=f.value, attr="to", ctx=ast.Load()), args=node.args, keywords=[])
        # isinstance(x, (A,)) -> isinstance(x, A)
        if isinstance(f, ast.Name) and f.id in ("isinstance", "issubclass") and len(node.args) == 2 and isinstance(node.args[1], ast.Tuple) and len(node.args[1].elts) == 1:
            node = ast.Call(func=f, args=[node.args[0], node.args[1].elts[0]], keywords=node.keywords)
        # f(*(a, b), c) -> f(a, b, c)
        if any(isinstance(a, ast.Starred) and isinstance(a.value, (ast.Tuple, ast.List)) for a in node.args):
            args = []
            for a in node.args:
                if isinstance(a, ast.Starred) and isinstance(a.value, (ast.Tuple, ast.List)):
                    args.extend(a.value.elts)
                else:
                    args.append(a)
            node = ast.Call(func=f, args=args, keywords=node.keywords)
        # f(**{"a": x, "b": y}) -> f(a=x, b=y)
        def _kwdict(d):
            return isinstance(d, ast.Dict) and d.keys and all(z is None or (isinstance(z, ast.Constant) and isinstance(z.value, str) and z.value.isidentifier()) for z in d.keys)
        if any(k.arg is None and _kwdict(k.value) for k in node.keywords):
            kws = []
            for k in node.keywords:
                if k.arg is None and _kwdict(k.value):
                    kws.extend(ast.keyword(arg=(z.value if z is not None else None), value=v) for z, v in zip(k.value.keys, k.value.values))
                else:
                    kws.append(k)
            names = [k.arg for k in kws if k.arg is not None]
            if len(names) == len(set(names)):
                node = ast.Call(func=f, args=node.args, keywords=kws)
        # (lambda x, y: body)(a, b) -> body[x := a, y := b]
        if isinstance(f, ast.Lambda) and not node.keywords and not any(isinstance(a, ast.Starred) for a in node.args):
            la = f.args
            if not (la.vararg or la.kwarg or la.kwonlyargs or la.defaults or la.posonlyargs) and len(la.args) == len(node.args):
                return self.visit(subst(copy.deepcopy(f.body), {p_.arg: a for p_, a in zip(la.args, node.args)}))
        # getattr(x, "name") -> x.name
        if isinstance(f, ast.Name) and f.id == "getattr" and len(node.args) == 2 and not node.keywords and isinstance(node.args[1], ast.Constant) and isinstance(node.args[1].value, str) and node.args[1].value.isidentifier():
            return ast.Attribute(value=node.args[0], attr=node.args[1].value, ctx=ast.Load())
        # partial(g, *a, **k)(*b, **k2) -> g(*a, *b, **k, **k2)
        if isinstance(f, ast.Call) and isinstance(f.func, (ast.Name, ast.Attribute)) and ast.unparse(f.func) in ("partial", "functools.partial") and f.args:
            kws = list(f.keywords) + [k for k in node.keywords]
            names = [k.arg for k in kws if k.arg is not None]
            if len(names) == len(set(names)):
                return self.visit(ast.Call(func=f.args[0], args=list(f.args[1:]) + list(node.args), keywords=kws))
        if isinstance(f, ast.Attribute) and f.attr == "Size" and isinstance(f.value, ast.Name) and f.value.id == "torch" and len(node.args) == 1 and isinstance(node.args[0], ast.Tuple):
            return ast.Call(func=f, args=[ast.List(elts=node.args[0].elts, ctx=ast.Load())], keywords=[])
        if isinstance(f, ast.Attribute) and f.attr == "get" and isinstance(f.value, ast.Dict) and len(node.args) in (1, 2) and not node.keywords and all(k is not None for k in f.value.keys):
            # {k1: v1, k2: v2}.get(x, d) -> v1 if x == k1 else (v2 if x == k2 else d)
            r = node.args[1] if len(node.args) == 2 else ast.Constant(value=None)
            for k, v in reversed(list(zip(f.value.keys, f.value.values))):
                r = ast.IfExp(test=ast.Compare(left=copy.deepcopy(node.args[0]), ops=[ast.Eq()], comparators=[k]), body=v, orelse=r)
            return r
        if isinstance(f, ast.Attribute):
            base = f.value
            # torch.f(x, ...) -> x.f(...)
            if isinstance(base, ast.Name) and base.id == "torch" and f.attr in _METHOD_FORM and node.args and not isinstance(node.args[0], ast.Starred):
                node = ast.Call(func=ast.Attribute(value=node.args[0], attr=f.attr, ctx=ast.Load()), args=node.args[1:], keywords=node.keywords)
                f = node.func
            if isinstance(base, ast.Name) and base.id == "torch" and f.attr in ("max", "min") and len(node.args) == 1 and not node.keywords:
                return ast.Call(func=ast.Attribute(value=node.args[0], attr=f.attr, ctx=ast.Load()), args=[], keywords=[])
            if isinstance(base, ast.Name) and base.id == "torch" and f.attr == "matmul" and len(node.args) == 2 and not node.keywords:
                return ast.BinOp(left=node.args[0], op=ast.MatMult(), right=node.args[1])
            f = node.func
            # arithmetic spelled as functions / methods -> operators (only the plain two-operand forms: no alpha / rounding_mode / out)
            arith = {"div": ast.Div, "true_divide": ast.Div, "mul": ast.Mult, "multiply": ast.Mult, "sub": ast.Sub, "subtract": ast.Sub, "add": ast.Add}
            if f.attr in arith and not node.keywords and not any(isinstance(a, ast.Starred) for a in node.args):
                if isinstance(f.value, ast.Name) and f.value.id == "torch" and len(node.args) == 2:
                    return ast.BinOp(left=node.args[0], op=arith[f.attr](), right=node.args[1])
                if not (isinstance(f.value, ast.Name) and f.value.id in ("torch", "operator", "np", "math")) and len(node.args) == 1 and f.attr != "add":
                    return ast.BinOp(left=f.value, op=arith[f.attr](), right=node.args[0])  # (`.add` is left alone: set.add)
            cmpf = {"eq": ast.Eq, "ne": ast.NotEq, "lt": ast.Lt, "le": ast.LtE, "gt": ast.Gt, "ge": ast.GtE}
            if f.attr in cmpf and not node.keywords and not any(isinstance(a, ast.Starred) for a in node.args):
                if isinstance(f.value, ast.Name) and f.value.id == "torch" and len(node.args) == 2:
                    return ast.Compare(left=node.args[0], ops=[cmpf[f.attr]()], comparators=[node.args[1]])
                if not (isinstance(f.value, ast.Name) and f.value.id in ("torch", "operator", "np", "math")) and len(node.args) == 1:
                    return ast.Compare(left=f.value, ops=[cmpf[f.attr]()], comparators=[node.args[0]])
            if f.attr in ("neg", "negative") and not node.keywords:
                if isinstance(f.value, ast.Name) and f.value.id == "torch" and len(node.args) == 1 and not isinstance(node.args[0], ast.Starred):
                    return ast.UnaryOp(op=ast.USub(), operand=node.args[0])
                if not (isinstance(f.value, ast.Name) and f.value.id in ("torch", "operator", "np", "math")) and not node.args:
                    return ast.UnaryOp(op=ast.USub(), operand=f.value)
            if f.attr == "matmul" and len(node.args) == 1 and not node.keywords and not (isinstance(f.value, ast.Name) and f.value.id in ("torch", "np")):
                return ast.BinOp(left=f.value, op=ast.MatMult(), right=node.args[0])
            if f.attr == "to" and not node.args and len(node.keywords) == 1 and node.keywords[0].arg == "dtype":
                return ast.Call(func=f, args=[node.keywords[0].value], keywords=[])  # x.to(dtype=d) -> x.to(d)
            if f.attr in ("concat", "concatenate") and isinstance(f.value, ast.Name) and f.value.id == "torch":
                f.attr = "cat"
            if f.attr == "type" and len(node.args) == 1 and not node.keywords and not (isinstance(f.value, ast.Name) and f.value.id == "torch"):
                f.attr = "to"  # x.type(dtype) == x.to(dtype) on the same device
            if f.attr in ("clamp_min", "clamp_max") and len(node.args) == 1 and not node.keywords and not (isinstance(f.value, ast.Name) and f.value.id == "torch"):
                return ast.Call(func=ast.Attribute(value=f.value, attr="clamp", ctx=ast.Load()), args=[], keywords=[ast.keyword(arg="min" if f.attr == "clamp_min" else "max", value=node.args[0])])
            if f.attr == "clip":
                f.attr = "clamp"
            if f.attr == "clamp" and node.args and not any(isinstance(a, ast.Starred) for a in node.args):
                names = ["min", "max"]
                kws = [ast.keyword(arg=names[i], value=a) for i, a in enumerate(node.args[:2])]
                node = ast.Call(func=f, args=[], keywords=kws + node.keywords)
            if f.attr == "numel" and not node.args and not node.keywords and isinstance(f.value, ast.Attribute) and f.value.attr == "shape":
                return ast.Call(func=ast.Attribute(value=f.value.value, attr="numel", ctx=ast.Load()), args=[], keywords=[])  # x.shape.numel() -> x.numel()
            if f.attr == "prod" and isinstance(f.value, ast.Name) and f.value.id == "math" and len(node.args) == 1 and isinstance(node.args[0], ast.Attribute) and node.args[0].attr == "shape":
                return ast.Call(func=ast.Attribute(value=node.args[0].value, attr="numel", ctx=ast.Load()), args=[], keywords=[])
            if f.attr == "transpose" and len(node.args) == 2 and not node.keywords and all(isinstance(a, ast.Constant) for a in node.args) and sorted(a.value for a in node.args) == [0, 1] \
                    and not (isinstance(f.value, ast.Name) and f.value.id == "torch"):
                return ast.Call(func=ast.Attribute(value=f.value, attr="t", ctx=ast.Load()), args=[], keywords=[])  # 2-D transpose
            if f.attr == "size":
                if not node.args and not node.keywords:
                    return ast.Attribute(value=f.value, attr="shape", ctx=ast.Load())
                if len(node.args) == 1 and not node.keywords:
                    return ast.Subscript(value=ast.Attribute(value=f.value, attr="shape", ctx=ast.Load()), slice=node.args[0], ctx=ast.Load())
            if f.attr == "dim" and not node.args and not node.keywords:
                return ast.Attribute(value=f.value, attr="ndim", ctx=ast.Load())
            return node
        if isinstance(f, ast.Name):
            if f.id == "next" and len(node.args) in (1, 2) and not node.keywords and isinstance(node.args[0], ast.GeneratorExp) and len(node.args[0].generators) == 1:
                # next(e(x) for x in (a, b) if c(x)) -> e(a) if c(a) else (e(b) if c(b) else default)
                g = node.args[0].generators[0]
                if not g.is_async and isinstance(g.iter, (ast.Tuple, ast.List)) and 0 < len(g.iter.elts) <= 8 and len(g.ifs) <= 1:
                    def bind(item):
                        if isinstance(g.target, ast.Name):
                            return {g.target.id: item}
                        if isinstance(g.target, (ast.Tuple, ast.List)) and isinstance(item, (ast.Tuple, ast.List)) and len(item.elts) == len(g.target.elts) and all(isinstance(t, ast.Name) for t in g.target.elts):
                            return {t.id: v for t, v in zip(g.target.elts, item.elts)}
                        return None
                    envs = [bind(it) for it in g.iter.elts]
                    if all(e is not None for e in envs):
                        r = node.args[1] if len(node.args) == 2 else ast.Constant(value=None)
                        for e in reversed(envs):
                            val = subst(copy.deepcopy(node.args[0].elt), e)
                            r = ast.IfExp(test=subst(copy.deepcopy(g.ifs[0]), e), body=val, orelse=r) if g.ifs else val
                        return self.visit(r)
            if f.id in ("all", "any") and len(node.args) == 1 and not node.keywords:
                vals = _literal_elements(node.args[0])
                if vals:
                    r = vals[0] if len(vals) == 1 else ast.BoolOp(op=ast.And() if f.id == "all" else ast.Or(), values=vals)
                    return self.visit(r)
            if f.id == "float" and len(node.args) == 1 and isinstance(node.args[0], ast.Attribute) and node.args[0].attr in ("max", "min", "eps"):
                return node.args[0]
            if f.id == "int" and len(node.args) == 1 and not node.keywords and isinstance(node.args[0], (ast.Attribute, ast.Subscript, ast.Name)):
                return node.args[0]  # int() of a size / bit width / count is the identity
            if f.id == "int" and len(node.args) == 1 and not node.keywords and isinstance(node.args[0], ast.Call) and isinstance(node.args[0].func, ast.Attribute) and node.args[0].func.attr in ("numel", "size", "dim", "item"):
                return node.args[0]
            if f.id in ("tuple", "list") and len(node.args) == 1 and not node.keywords and isinstance(node.args[0], (ast.GeneratorExp, ast.ListComp)) and len(node.args[0].generators) == 1:
                g = node.args[0].generators[0]
                it = g.iter
                if not g.ifs and isinstance(it, ast.Call) and isinstance(it.func, ast.Name) and it.func.id == "range" and len(it.args) == 1 and isinstance(it.args[0], ast.Constant) \
                        and isinstance(it.args[0].value, int) and 0 <= it.args[0].value <= 16 and isinstance(node.args[0].elt, ast.Constant):
                    return ast.Tuple(elts=[copy.deepcopy(node.args[0].elt) for _ in range(it.args[0].value)], ctx=ast.Load())
            if f.id in ("tuple", "list") and len(node.args) == 1 and not node.keywords and isinstance(node.args[0], ast.Call) and isinstance(node.args[0].func, ast.Name) and node.args[0].func.id == "reversed" and len(node.args[0].args) == 1:
                return ast.Subscript(value=node.args[0].args[0], slice=ast.Slice(lower=None, upper=None, step=ast.UnaryOp(op=ast.USub(), operand=ast.Constant(value=1))), ctx=ast.Load())
            if f.id in ("tuple", "list") and len(node.args) == 1 and not node.keywords and isinstance(node.args[0], ast.Attribute) and node.args[0].attr == "shape":
                return node.args[0]  # tuple(x.shape) / tuple(x.size()): the shape itself
            if f.id == "len" and len(node.args) == 1 and isinstance(node.args[0], ast.Attribute) and node.args[0].attr == "shape":
                return ast.Attribute(value=node.args[0].value, attr="ndim", ctx=ast.Load())
            if f.id == "range" and len(node.args) == 2 and isinstance(node.args[0], ast.Constant) and node.args[0].value == 0 and not node.keywords:
                return ast.Call(func=f, args=[node.args[1]], keywords=[])
            sig = _SIGNATURES.get(f.id)
            if sig is not None and node.keywords and not any(k.arg is None for k in node.keywords) and not any(isinstance(a, ast.Starred) for a in node.args):
                skip = 1 if sig.name == "__init__" else 0
                pos = [a.arg for a in sig.args.posonlyargs + sig.args.args][skip:]
                given = {k.arg: k.value for k in node.keywords}
                if all(k in pos for k in given) and len(node.args) <= len(pos):
                    args = list(node.args)
                    ok = True
                    for name in pos[len(args):]:
                        if name in given:
                            args.append(given.pop(name))
                        elif given:
                            ok = False  # a gap before a later keyword: keep keywords
                            break
                        else:
                            break
                    if ok and not given:
                        return ast.Call(func=f, args=args, keywords=[])
        return node

    def visit_JoinedStr(self, node):
        self.generic_visit(node)
        # f"{'lit'}::{x}" -> f"lit::{x}"
        parts = []
        for v in node.values:
            if isinstance(v, ast.FormattedValue) and isinstance(v.value, ast.Constant) and isinstance(v.value.value, (str, int)) and v.conversion == -1 and v.format_spec is None:
                v = ast.Constant(value=str(v.value.value))
            if isinstance(v, ast.Constant) and parts and isinstance(parts[-1], ast.Constant):
                parts[-1] = ast.Constant(value=str(parts[-1].value) + str(v.value))
            else:
                parts.append(v)
        if len(parts) == 1 and isinstance(parts[0], ast.Constant):
            return parts[0]
        node.values = parts
        return node

    def visit_IfExp(self, node):
        self.generic_visit(node)
        t = ast.unparse(node.test)
        o = node.orelse
        # x if x is not None else {}  ->  x or {}   (x is a container or None: both give an empty container for None / empty x)
        if isinstance(node.test, ast.Compare) and len(node.test.ops) == 1 and isinstance(node.test.comparators[0], ast.Constant) and node.test.comparators[0].value is None:
            x_ = ast.unparse(node.test.left)
            keep, dflt = (node.body, node.orelse) if isinstance(node.test.ops[0], ast.IsNot) else (node.orelse, node.body) if isinstance(node.test.ops[0], ast.Is) else (None, None)
            if keep is not None and ast.unparse(keep) == x_ and ((isinstance(dflt, (ast.Dict, ast.List, ast.Tuple, ast.Set)) and not getattr(dflt, "keys", getattr(dflt, "elts", None)))):
                return ast.BoolOp(op=ast.Or(), values=[keep, dflt])
        # x if x is None else x  (after `int(x)` -> x) and the mirrored form: the None-guarded identity
        if ast.unparse(node.body) == ast.unparse(node.orelse):
            return node.body
        if isinstance(node.test, ast.Compare) and len(node.test.ops) == 1 and isinstance(node.test.ops[0], (ast.Is, ast.IsNot)) and isinstance(node.test.comparators[0], ast.Constant) and node.test.comparators[0].value is None:
            x = ast.unparse(node.test.left)
            none_side, other = (node.body, node.orelse) if isinstance(node.test.ops[0], ast.Is) else (node.orelse, node.body)
            if (isinstance(none_side, ast.Constant) and none_side.value is None) and ast.unparse(other) == x:
                return other  # None if x is None else x
        if isinstance(o, ast.IfExp):
            ot = ast.unparse(o.test)
            if ot == f"not {t}" or ot == f"not ({t})":
                node.orelse = o.body
            elif ot == t:
                node.orelse = o.orelse
        if isinstance(node.test, ast.Constant) and isinstance(node.test.value, bool):
            return node.body if node.test.value else node.orelse
        # d[k] if k in d else default -> d.get(k, default)
        te = node.test
        if isinstance(te, ast.Compare) and len(te.ops) == 1 and isinstance(te.ops[0], (ast.In, ast.NotIn)):
            cont = te.comparators[0]
            if isinstance(cont, ast.Call) and isinstance(cont.func, ast.Attribute) and cont.func.attr == "keys" and not cont.args:
                cont = cont.func.value
            hit, miss = (node.body, node.orelse) if isinstance(te.ops[0], ast.In) else (node.orelse, node.body)
            if isinstance(hit, ast.Subscript) and ast.unparse(hit.value) == ast.unparse(cont) and ast.unparse(hit.slice) == ast.unparse(te.left):
                return ast.Call(func=ast.Attribute(value=cont, attr="get", ctx=ast.Load()), args=[te.left, miss], keywords=[])
        return node

    def visit_Lambda(self, node):
        self.generic_visit(node)
        a = node.args
        if a.vararg or a.kwarg or a.kwonlyargs or a.defaults or a.posonlyargs:
            return node
        old = [x.arg for x in a.args]
        new = (["x", "y", "z"] + [f"a{i}" for i in range(3, len(old))])[: len(old)]
        if old == new:
            return node
        free = {n.id for n in ast.walk(node.body) if isinstance(n, ast.Name)} - set(old)
        if free & set(new):
            return node
        ren = dict(zip(old, new))

        class R(ast.NodeTransformer):
            def visit_Name(self, n):
                return ast.copy_location(ast.Name(id=ren[n.id], ctx=n.ctx), n) if n.id in ren else n

            def visit_Lambda(self, n):
                return n  # inner lambdas keep their own binders

        node.body = R().visit(node.body)
        node.args = ast.arguments(posonlyargs=[], args=[ast.arg(arg=x) for x in new], vararg=None, kwonlyargs=[], kw_defaults=[], kwarg=None, defaults=[])
        return node

    def visit_List(self, node):
        self.generic_visit(node)
        if len(node.elts) == 1 and isinstance(node.elts[0], ast.Starred) and isinstance(node.ctx, ast.Load):
            return ast.Call(func=ast.Name(id="list", ctx=ast.Load()), args=[node.elts[0].value], keywords=[])  # [*x] -> list(x)
        return self._splice(node)

    def visit_Tuple(self, node):
        self.generic_visit(node)
        return self._splice(node)

    @staticmethod
    def _splice(node):
        # (a, *(b, c)) -> (a, b, c)
        if isinstance(node.ctx, ast.Load) and any(isinstance(e, ast.Starred) and isinstance(e.value, (ast.Tuple, ast.List)) for e in node.elts):
            elts = []
            for e in node.elts:
                if isinstance(e, ast.Starred) and isinstance(e.value, (ast.Tuple, ast.List)):
                    elts.extend(e.value.elts)
                else:
                    elts.append(e)
            node.elts = elts
        return node

    def visit_Attribute(self, node):
        self.generic_visit(node)
        nt = _nt_fields(node.value)
        if nt is not None and node.attr in nt:
            return nt[node.attr]  # _Pair(a=x, b=y).a -> x
        # x.detach().ndim -> x.ndim: shape / dtype / device queries do not see layout or graph-membership calls
        if node.attr in ("ndim", "shape", "dtype", "device") and isinstance(node.value, ast.Call) and isinstance(node.value.func, ast.Attribute) \
                and node.value.func.attr in ("detach", "clone") and not node.value.args and not node.value.keywords:
            return ast.Attribute(value=node.value.func.value, attr=node.attr, ctx=node.ctx)
        # <qtype>.dtype.is_floating_point -> <qtype>.is_floating_point (the qtype table keeps the two equal: C01.R3 checks it)
        if node.attr == "is_floating_point" and isinstance(node.value, ast.Attribute) and node.value.attr == "dtype":
            base = node.value.value
            nm = base.id if isinstance(base, ast.Name) else base.attr if isinstance(base, ast.Attribute) else ""
            if nm.lstrip("_").endswith("qtype"):
                return ast.Attribute(value=base, attr="is_floating_point", ctx=node.ctx)
        return node

    def visit_Subscript(self, node):
        self.generic_visit(node)
        v = node.value
        nt = _nt_fields(v)
        if nt is not None and isinstance(node.slice, ast.Constant) and isinstance(node.slice.value, int) and -len(nt) <= node.slice.value < len(nt):
            return list(nt.values())[node.slice.value]
        # dotted-name surgery: s.rpartition(sep)[0] / s.rsplit(sep, 1)[0] -> s[:s.rindex(sep)];  [2] / [-1] / [1] -> s.split(sep)[-1]
        # (equal whenever sep occurs in s, which is what the guards of the callers establish)
        if isinstance(v, ast.Call) and isinstance(v.func, ast.Attribute) and isinstance(node.slice, (ast.Constant, ast.UnaryOp)) and not v.keywords:
            idx = node.slice.value if isinstance(node.slice, ast.Constant) else (-node.slice.operand.value if isinstance(node.slice.op, ast.USub) and isinstance(node.slice.operand, ast.Constant) else None)
            s_, meth = v.func.value, v.func.attr
            head = tail = False
            if meth == "rpartition" and len(v.args) == 1:
                head, tail = idx == 0, idx in (2, -1)
            elif meth == "rsplit" and len(v.args) == 2 and isinstance(v.args[1], ast.Constant) and v.args[1].value == 1:
                head, tail = idx == 0, idx in (1, -1)
            if head:
                return ast.Subscript(value=s_, slice=ast.Slice(lower=None, upper=ast.Call(func=ast.Attribute(value=copy.deepcopy(s_), attr="rindex", ctx=ast.Load()), args=[v.args[0]], keywords=[]), step=None), ctx=node.ctx)
            if tail:
                return ast.Subscript(value=ast.Call(func=ast.Attribute(value=s_, attr="split", ctx=ast.Load()), args=[v.args[0]], keywords=[]), slice=ast.UnaryOp(op=ast.USub(), operand=ast.Constant(value=1)), ctx=node.ctx)
        if isinstance(v, ast.Call) and isinstance(v.func, ast.Name) and v.func.id in ("tuple", "list") and len(v.args) == 1 and not v.keywords:
            return ast.Subscript(value=v.args[0], slice=node.slice, ctx=node.ctx)
        return node

    def visit_BinOp(self, node):
        self.generic_visit(node)
        # (x + "a") + "b" -> x + "ab"
        if isinstance(node.op, ast.Add) and isinstance(node.right, ast.Constant) and isinstance(node.right.value, str):
            l = node.left
            if isinstance(l, ast.Constant) and isinstance(l.value, str):
                return ast.Constant(value=l.value + node.right.value)
            if isinstance(l, ast.BinOp) and isinstance(l.op, ast.Add) and isinstance(l.right, ast.Constant) and isinstance(l.right.value, str):
                return ast.BinOp(left=l.left, op=ast.Add(), right=ast.Constant(value=l.right.value + node.right.value))
        # (a,) + (b, c) -> (a, b, c)
        if isinstance(node.op, ast.Add) and isinstance(node.left, ast.Tuple) and isinstance(node.right, ast.Tuple):
            return ast.Tuple(elts=list(node.left.elts) + list(node.right.elts), ctx=ast.Load())
        # (x,) * 3 -> (x, x, x)
        if isinstance(node.op, ast.Mult):
            for seq, k in ((node.left, node.right), (node.right, node.left)):
                if isinstance(seq, (ast.Tuple, ast.List)) and isinstance(k, ast.Constant) and isinstance(k.value, int) and not isinstance(k.value, bool) and 0 <= k.value * len(seq.elts) <= 16 \
                        and all(isinstance(e, ast.Constant) for e in seq.elts):
                    return type(seq)(elts=[copy.deepcopy(e) for _ in range(k.value) for e in seq.elts], ctx=ast.Load())
        if isinstance(node.op, ast.LShift) and isinstance(node.left, ast.Constant) and node.left.value == 1:
            return ast.BinOp(left=ast.Constant(value=2), op=ast.Pow(), right=node.right)
        return node

    def visit_UnaryOp(self, node):
        self.generic_visit(node)
        if isinstance(node.op, ast.Not) and isinstance(node.operand, ast.Constant) and isinstance(node.operand.value, bool):
            return ast.Constant(value=not node.operand.value)
        if isinstance(node.op, ast.Not) and isinstance(node.operand, ast.UnaryOp) and isinstance(node.operand.op, ast.Not) and isinstance(node.operand.operand, (ast.Compare, ast.BoolOp)):
            return node.operand.operand  # not not (a == b)
        if isinstance(node.op, ast.Not) and isinstance(node.operand, ast.Compare) and len(node.operand.ops) == 1:
            flip = {ast.Eq: ast.NotEq, ast.NotEq: ast.Eq, ast.Is: ast.IsNot, ast.IsNot: ast.Is, ast.In: ast.NotIn, ast.NotIn: ast.In,
                    ast.Lt: ast.GtE, ast.GtE: ast.Lt, ast.Gt: ast.LtE, ast.LtE: ast.Gt}
            op = type(node.operand.ops[0])
            if op in flip:
                return ast.Compare(left=node.operand.left, ops=[flip[op]()], comparators=node.operand.comparators)
        return node

    def visit_BoolOp(self, node):
        self.generic_visit(node)
        # flatten nested same-operator clauses
        vals = []
        for v in node.values:
            if isinstance(v, ast.BoolOp) and type(v.op) is type(node.op):
                vals.extend(v.values)
            else:
                vals.append(v)
        # x is c or x == c -> one test (identity for None, equality otherwise)
        if isinstance(node.op, ast.Or):
            keep = []
            for v in vals:
                dup = False
                if isinstance(v, ast.Compare) and len(v.ops) == 1 and isinstance(v.ops[0], (ast.Is, ast.Eq)):
                    for i, w in enumerate(keep):
                        if isinstance(w, ast.Compare) and len(w.ops) == 1 and isinstance(w.ops[0], (ast.Is, ast.Eq)) and type(w.ops[0]) is not type(v.ops[0]) \
                                and ast.unparse(w.left) == ast.unparse(v.left) and ast.unparse(w.comparators[0]) == ast.unparse(v.comparators[0]):
                            isnone = isinstance(v.comparators[0], ast.Constant) and v.comparators[0].value is None
                            keep[i] = ast.Compare(left=v.left, ops=[ast.Is() if isnone else ast.Eq()], comparators=v.comparators)
                            dup = True
                            break
                if not dup:
                    keep.append(v)
            vals = keep
            if len(vals) == 1:
                return vals[0]
        # neutral / absorbing literals
        isand = isinstance(node.op, ast.And)
        if any(isinstance(v, ast.Constant) and isinstance(v.value, bool) for v in vals):
            if any(isinstance(v, ast.Constant) and v.value is (not isand) for v in vals):
                return ast.Constant(value=not isand)
            vals = [v for v in vals if not (isinstance(v, ast.Constant) and v.value is isand)] or [ast.Constant(value=isand)]
            if len(vals) == 1:
                return vals[0]
        # x == a or x == b -> x in (a, b);  x != a and x != b -> x not in (a, b)
        want = ast.Eq if isinstance(node.op, ast.Or) else ast.NotEq
        groups: Dict[str, list] = {}
        for v in vals:
            if isinstance(v, ast.Compare) and len(v.ops) == 1 and isinstance(v.ops[0], want) and isinstance(v.comparators[0], (ast.Constant, ast.UnaryOp, ast.Attribute, ast.Name)):
                groups.setdefault(ast.unparse(v.left), []).append(v)
        out = []
        done = set()
        for v in vals:
            key = ast.unparse(v.left) if isinstance(v, ast.Compare) and len(v.ops) == 1 and isinstance(v.ops[0], want) else None
            g = groups.get(key) if key is not None else None
            if g and len(g) >= 2 and any(v is x for x in g):
                if key in done:
                    continue
                done.add(key)
                out.append(ast.Compare(left=g[0].left, ops=[ast.In() if want is ast.Eq else ast.NotIn()], comparators=[ast.Tuple(elts=[x.comparators[0] for x in g], ctx=ast.Load())]))
            else:
                out.append(v)
        if len(out) == 1:
            return out[0]
        node.values = out
        return node

    def visit_Compare(self, node):
        self.generic_visit(node)
        if len(node.ops) > 1:
            # a == b == c -> a == b and b == c
            parts, left = [], node.left
            for op, right in zip(node.ops, node.comparators):
                parts.append(self.visit_Compare(ast.Compare(left=copy.deepcopy(left), ops=[op], comparators=[right])))
                left = right
            return self.visit_BoolOp(ast.BoolOp(op=ast.And(), values=parts))
        # None is None / None is not None (a local known to hold None on this path): a constant
        if len(node.ops) == 1 and isinstance(node.ops[0], (ast.Is, ast.IsNot)) and all(isinstance(x, ast.Constant) and x.value is None for x in (node.left, node.comparators[0])):
            return ast.Constant(value=isinstance(node.ops[0], ast.Is))

        def _lit(x):
            return isinstance(x, ast.Constant) or (isinstance(x, ast.UnaryOp) and isinstance(x.op, ast.USub) and isinstance(x.operand, ast.Constant))
        if len(node.ops) == 1 and _lit(node.left) and not _lit(node.comparators[0]):
            # 0 == axis -> axis == 0 (constants on the right)
            mirror = {ast.Eq: ast.Eq, ast.NotEq: ast.NotEq, ast.Is: ast.Is, ast.IsNot: ast.IsNot, ast.Lt: ast.Gt, ast.Gt: ast.Lt, ast.LtE: ast.GtE, ast.GtE: ast.LtE}
            m = mirror.get(type(node.ops[0]))
            if m is not None:
                node = ast.Compare(left=node.comparators[0], ops=[m()], comparators=[node.left])
        # an integer quantity (a rank, an extent, an element count) against an integer literal: `n >= k` is `n > k - 1`, `n <= k` is `n < k + 1`
        if len(node.ops) == 1 and isinstance(node.ops[0], (ast.GtE, ast.LtE)) and isinstance(node.comparators[0], ast.Constant) and type(node.comparators[0].value) is int:
            l_ = node.left
            integral = (isinstance(l_, ast.Attribute) and l_.attr in ("ndim", "bits")) or (isinstance(l_, ast.Subscript) and isinstance(l_.value, ast.Attribute) and l_.value.attr == "shape") \
                or (isinstance(l_, ast.Call) and isinstance(l_.func, ast.Attribute) and l_.func.attr in ("numel", "nelement") and not l_.args) \
                or (isinstance(l_, ast.Call) and isinstance(l_.func, ast.Name) and l_.func.id == "len")
            if integral:
                k = node.comparators[0].value
                node = ast.Compare(left=l_, ops=[ast.Gt() if isinstance(node.ops[0], ast.GtE) else ast.Lt()], comparators=[ast.Constant(value=k - 1 if isinstance(node.ops[0], ast.GtE) else k + 1)])
        if len(node.ops) == 1 and isinstance(node.ops[0], (ast.Eq, ast.Is)):
            for a, b in ((node.left, node.comparators[0]), (node.comparators[0], node.left)):
                if isinstance(b, ast.Constant) and isinstance(b.value, bool) and isinstance(a, ast.Call) and isinstance(a.func, ast.Name) and a.func.id == "bool" and len(a.args) == 1:
                    return a.args[0] if b.value else self.visit_UnaryOp(ast.UnaryOp(op=ast.Not(), operand=a.args[0]))
        if len(node.ops) == 1 and isinstance(node.ops[0], (ast.Eq, ast.Is)):
            # x.is_floating_point == True -> x.is_floating_point  (a flag named is_* / has_* is a bool)
            for a, b in ((node.left, node.comparators[0]), (node.comparators[0], node.left)):
                nm = a.attr if isinstance(a, ast.Attribute) else a.id if isinstance(a, ast.Name) else ""
                if isinstance(b, ast.Constant) and isinstance(b.value, bool) and nm.startswith(("is_", "has_")) and _is_plain_ref(a):
                    return a if b.value else self.visit_UnaryOp(ast.UnaryOp(op=ast.Not(), operand=a))
        if len(node.ops) == 1:
            # type(x) is T -> type(x) == T ;  x in [a, b] -> x in (a, b)
            if isinstance(node.ops[0], (ast.Is, ast.IsNot)) and isinstance(node.left, ast.Call) and isinstance(node.left.func, ast.Name) and node.left.func.id == "type":
                node.ops = [ast.Eq() if isinstance(node.ops[0], ast.Is) else ast.NotEq()]
            if isinstance(node.ops[0], (ast.In, ast.NotIn)) and isinstance(node.comparators[0], ast.List):
                node.comparators = [ast.Tuple(elts=node.comparators[0].elts, ctx=ast.Load())]
        return node


def U_plain(e) -> str:
    return ast.unparse(e)


_CANON_CACHE: Dict[str, str] = {}


def canon_text(s: str) -> str:
    r = _CANON_CACHE.get(s)
    if r is None:
        try:
            tree = ast.parse(s, mode="eval").body
            r = ast.unparse(ast.fix_missing_locations(_Canon().visit(tree)))
        except (SyntaxError, ValueError, RecursionError):
            r = s
        _CANON_CACHE[s] = r
    return r


class CanonStr(str):
    """The canonical rendering of an expression; equality with a plain string canonicalises the plain string."""

    def __eq__(self, other):
        if isinstance(other, CanonStr):
            return str.__eq__(self, other)
        if isinstance(other, str):
            return str.__eq__(self, other) or str.__eq__(self, canon_text(other))
        return NotImplemented

    def __ne__(self, other):
        r = self.__eq__(other)
        return r if r is NotImplemented else not r

    __hash__ = str.__hash__


def U(e) -> str:
    if not isinstance(e, ast.AST):
        return repr(e)
    if isinstance(e, (ast.stmt, ast.mod, ast.keyword, ast.arguments, ast.comprehension, ast.ExceptHandler)):
        return ast.unparse(e)
    try:
        c = _Canon().visit(copy.deepcopy(e))
        return CanonStr(ast.unparse(ast.fix_missing_locations(c)))
    except Exception:
        return CanonStr(ast.unparse(e))


def canon_ast(e):
    """The canonical form of an expression as a tree (a fresh copy)."""
    if not isinstance(e, ast.AST) or isinstance(e, (ast.stmt, ast.mod)):
        return e
    try:
        return ast.fix_missing_locations(_Canon().visit(copy.deepcopy(e)))
    except Exception:
        return e


class FactDict(dict):
    """facts keyed by canonical text; lookups canonicalise the key"""

    @staticmethod
    def _k(key):
        return key if isinstance(key, CanonStr) or not isinstance(key, str) else canon_text(key)

    _ORD = {" > ": (" < ", " <= "), " >= ": (" <= ", " < "), " < ": (" > ", " >= "), " <= ": (" >= ", " > ")}

    @classmethod
    def _equivalents(cls, k: str):
        """Other spellings of an ordering `a OP b`: (text, same polarity?)  -  b OP' a (same), a notOP b (flipped), b notOP' a (flipped)."""
        for neg, pos in ((" != ", " == "), (" is not ", " is "), (" not in ", " in ")):
            if k.count(neg) == 1 and " and " not in k and " or " not in k and " if " not in k:
                a, b = k.split(neg)
                if a.count("(") == a.count(")") and b.count("(") == b.count(")") and a.count("[") == a.count("]") and b.count("[") == b.count("]"):
                    alts = [(f"{a}{pos}{b}", False)]
                    if neg == " != ":
                        alts.append((f"{b} == {a}", False))
                    return alts
        if k.count(" == ") == 1 and " and " not in k and " or " not in k and " if " not in k and not any(o in k for o in cls._ORD):
            a, b = k.split(" == ")
            if a.count("(") == a.count(")") and a.count("[") == a.count("]") and b.count("(") == b.count(")") and b.count("[") == b.count("]"):
                return [(f"{b} == {a}", True)]
            return []
        for op, (mirror, neg) in cls._ORD.items():
            if k.count(op) == 1 and not any(k.count(o) for o in cls._ORD if o != op and o.strip() not in op.strip() and op.strip() not in o.strip()):
                a, b = k.split(op)
                if a.count("(") != a.count(")") or b.count("(") != b.count(")") or " and " in k or " or " in k or " if " in k:
                    return []
                negm = cls._ORD[neg][0]
                return [(f"{b}{mirror}{a}", True), (f"{a}{neg}{b}", False), (f"{b}{negm}{a}", False)]
        return []

    def _membership(self, k: str):
        """`x in (a, b)` from the facts `x == a`, `x == b` (any true -> true; all false -> false); `x is None` counts for a None member."""
        for op, pos in ((" not in (", False), (" in (", True)):
            if op in k and k.endswith(")") and " and " not in k and " or " not in k and " if " not in k:
                left, rest = k.split(op, 1)
                if left.count("(") != left.count(")"):
                    return False, None
                try:
                    elts = [ast.unparse(e) for e in ast.parse("(" + rest, mode="eval").body.elts]
                except Exception:
                    return False, None
                vals = []
                for e in elts:
                    found = False
                    for cand in ((f"{left} is {e}", f"{left} == {e}", f"{e} == {left}") if e == "None" else (f"{left} == {e}", f"{e} == {left}")):
                        if dict.__contains__(self, cand):
                            vals.append(dict.__getitem__(self, cand))
                            found = True
                            break
                    if not found:
                        vals.append(None)
                if any(v is True for v in vals):
                    return True, pos
                if vals and all(v is False for v in vals):
                    return True, not pos
                return False, None
        return False, None

    def _find(self, key):
        k = self._k(key)
        if dict.__contains__(self, k):
            return True, dict.__getitem__(self, k)
        if isinstance(k, str) and " in (" in k:
            found, v = self._membership(str(k))
            if found:
                return True, v
        if isinstance(k, str):
            for alt, same in self._equivalents(str(k)):
                if dict.__contains__(self, alt):
                    v = dict.__getitem__(self, alt)
                    return True, (v if same or not isinstance(v, bool) else not v)
        return False, None

    def get(self, key, default=None):
        found, v = self._find(key)
        return v if found else default

    def __getitem__(self, key):
        found, v = self._find(key)
        if not found:
            raise KeyError(key)
        return v

    def __contains__(self, key):
        return self._find(key)[0]

    def setdefault(self, key, default=None):
        return dict.setdefault(self, str(self._k(key)), default)

    def __setitem__(self, key, value):
        dict.__setitem__(self, str(self._k(key)), value)


def params_of(fn: ast.FunctionDef) -> List[str]:
    a = fn.args
    return [x.arg for x in a.posonlyargs + a.args] + ([a.vararg.arg] if a.vararg else []) + [x.arg for x in a.kwonlyargs] + ([a.kwarg.arg] if a.kwarg else [])


def positional_params(fn: ast.FunctionDef) -> List[str]:
    return [x.arg for x in fn.args.posonlyargs + fn.args.args]


def defaults_of(fn: ast.FunctionDef) -> Dict[str, ast.AST]:
    a = fn.args
    pos = a.posonlyargs + a.args
    out = {}
    for p, d in zip(pos[len(pos) - len(a.defaults):], a.defaults):
        out[p.arg] = d
    for p, d in zip(a.kwonlyargs, a.kw_defaults):
        if d is not None:
            out[p.arg] = d
    return out


def decorators(fn) -> List[str]:
    return [U(d) for d in fn.decorator_list]


# ----------------------------------------------------------------------------------------------
# Substitution and path enumeration (E2)
# ----------------------------------------------------------------------------------------------
class _Subst(ast.NodeTransformer):
    def __init__(self, env):
        self.env = env

    def visit_Name(self, node):
        if isinstance(node.ctx, ast.Load) and node.id in self.env:
            v = self.env[node.id]
            if isinstance(v, ast.AST) and not isinstance(v, (ast.FunctionDef, ast.stmt)):
                return copy.deepcopy(v)
        return node

    def visit_Lambda(self, node):
        bound = {a.arg for a in node.args.args}
        env = {k: v for k, v in self.env.items() if k not in bound}
        node.body = _Subst(env).visit(node.body)
        return node

    def _comp(self, node):
        bound = {n.id for g in node.generators for n in ast.walk(g.target) if isinstance(n, ast.Name)}
        env = {k: v for k, v in self.env.items() if k not in bound}
        return _Subst(env).generic_visit(node)

    visit_ListComp = visit_SetComp = visit_GeneratorExp = visit_DictComp = _comp


def subst(expr, env):
    if expr is None:
        return None
    return _Subst(env).visit(copy.deepcopy(expr))


def opaque(kind: str, *parts) -> ast.AST:
    """A symbolic value the enumerator cannot describe further."""
    return ast.Call(func=ast.Name(id=f"__{kind}__", ctx=ast.Load()), args=[p if isinstance(p, ast.AST) else ast.Constant(value=p) for p in parts], keywords=[])


def is_opaque(e, kind=None):
    return isinstance(e, ast.Call) and isinstance(e.func, ast.Name) and e.func.id.startswith("__") and e.func.id.endswith("__") and (kind is None or e.func.id == f"__{kind}__")


@dataclass
class Path:
    env: dict = field(default_factory=dict)
    conds: list = field(default_factory=list)  # (expr, truth, lineno)
    effects: list = field(default_factory=list)  # tuples, first item is the kind
    ctx: list = field(default_factory=list)  # active `with` items / try-finally markers
    end: Optional[tuple] = None  # (kind, expr, lineno): return / raise / fall / break / continue
    closures: dict = field(default_factory=dict)
    in_loop: int = 0

    def clone(self):
        return Path(dict(self.env), list(self.conds), list(self.effects), list(self.ctx), None, dict(self.closures), self.in_loop)

    def cond_texts(self):
        return [("" if t else "not ") + "(" + U(c) + ")" for c, t, _ in self.conds]

    def holds(self, text: str) -> Optional[bool]:
        """Truth of a condition (by normalised text) on this path, None if not tested."""
        for c, t, _ in self.conds:
            for atom, pol in atoms(c, t):
                if atom == text:  # CanonStr equality canonicalises `text`
                    return pol
        return None


def _is_plain_ref(e) -> bool:
    """a name, an attribute / constant-or-name subscript chain of one, or an integer-valued shape query on one (x.numel(), x.dim(), x.size(i))"""
    if isinstance(e, ast.Call) and isinstance(e.func, ast.Attribute) and e.func.attr in ("numel", "dim", "size", "nelement", "element_size") and not e.keywords \
            and all(isinstance(a, (ast.Constant, ast.Name)) for a in e.args):
        e = e.func.value
    while isinstance(e, (ast.Attribute, ast.Subscript)):
        if isinstance(e, ast.Subscript) and not isinstance(e.slice, (ast.Constant, ast.Name, ast.UnaryOp)):
            return False
        e = e.value
    return isinstance(e, ast.Name)


class _StripNoop(ast.NodeTransformer):
    """Removes calls that keep the VALUES of a tensor expression: x.contiguous(), x.detach(), x.clone(), x.to(<y>.device), x.to(device=...)."""

    def visit_Call(self, node):
        self.generic_visit(node)
        f = node.func
        if isinstance(f, ast.Attribute):
            if f.attr in ("contiguous", "detach", "clone") and not node.args and all(k.arg == "memory_format" for k in node.keywords):
                return f.value
            if f.attr in ("clone", "detach") and isinstance(f.value, ast.Name) and f.value.id == "torch" and len(node.args) == 1 and all(k.arg == "memory_format" for k in node.keywords):
                return node.args[0]  # torch.clone(x) / torch.detach(x)
            if f.attr == "to":
                a = [ast.unparse(x) for x in node.args]
                k = {x.arg: ast.unparse(x.value) for x in node.keywords}
                if (len(a) == 1 and not k and a[0].endswith(".device")) or (not a and set(k) == {"device"}):
                    return f.value
        return node


def strip_noop_calls(e: ast.AST) -> ast.AST:
    """Copy of `e` without value-preserving tensor calls (layout, graph membership, device): for rules about the values of a term only."""
    return ast.fix_missing_locations(_StripNoop().visit(copy.deepcopy(e)))


def strip_identity(e: ast.AST) -> ast.AST:
    """Remove value-preserving wrappers: int(x), bool(x), float(x), tuple(x), list(x) with a single argument."""
    while isinstance(e, ast.Call) and isinstance(e.func, ast.Name) and e.func.id in ("int", "bool", "float", "tuple", "list") and len(e.args) == 1 and not e.keywords:
        e = e.args[0]
    return e


def atoms(cond: ast.AST, truth: bool) -> List[Tuple[str, bool]]:
    """Decompose a path condition into atomic facts that are certainly known.

    (a and b) true  -> a true, b true;   (a or b) false -> a false, b false;   not a -> flipped.
    """
    out = []
    if isinstance(cond, ast.Call) and isinstance(cond.func, ast.Name) and cond.func.id == "bool" and len(cond.args) == 1 and not cond.keywords:
        return atoms(cond.args[0], truth)
    if isinstance(cond, ast.UnaryOp) and isinstance(cond.op, ast.Not):
        return atoms(cond.operand, not truth)
    if isinstance(cond, ast.BoolOp):
        if isinstance(cond.op, ast.And) and truth:
            for v in cond.values:
                out.extend(atoms(v, True))
            return out
        if isinstance(cond.op, ast.Or) and not truth:
            for v in cond.values:
                out.extend(atoms(v, False))
            return out
        return [(U(cond), truth)]
    if isinstance(cond, ast.Compare) and len(cond.ops) == 1:
        op = cond.ops[0]
        l, r = U(cond.left), U(cond.comparators[0])
        flip = {ast.IsNot: ast.Is, ast.NotEq: ast.Eq, ast.NotIn: ast.In}
        for neg, pos in flip.items():
            if isinstance(op, neg):
                sym = {ast.Is: "is", ast.Eq: "==", ast.In: "in"}[pos]
                return [(f"{l} {sym} {r}", not truth)]
    return [(U(cond), truth)]


def _equality_closure(f: Dict[str, bool]):
    """a == b and b == c (both known true) give a == c: every member of an equality class equals the class's constants."""
    pairs = []
    for k, v in list(f.items()):
        if v is True and k.count(" == ") == 1 and " and " not in k and " or " not in k and " if " not in k:
            a, b = k.split(" == ")
            if a.count("(") == a.count(")") and b.count("(") == b.count(")") and a.count("[") == a.count("]") and b.count("[") == b.count("]"):
                pairs.append((a, b))
    if len(pairs) < 2:
        return
    parent: Dict[str, str] = {}

    def find(x):
        parent.setdefault(x, x)
        while parent[x] != x:
            parent[x] = parent[parent[x]]
            x = parent[x]
        return x

    for a, b in pairs:
        parent[find(a)] = find(b)
    classes: Dict[str, list] = {}
    for x in list(parent):
        classes.setdefault(find(x), []).append(x)
    for members in classes.values():
        if len(members) < 3:
            continue
        for a in members:
            for b in members:
                if a != b and f"{a} == {b}" not in f:
                    f[f"{a} == {b}"] = True


def path_facts(p: "Path") -> Dict[str, bool]:
    """Atomic facts known on a path, closed under unit propagation:
    not(a and b) with a known true gives not b;  (a or b) with a known false gives b."""
    f: Dict[str, bool] = FactDict()
    pending = []
    for c, t, _ in p.conds:
        for a, pol in atoms(c, t):
            f.setdefault(a, pol)
        core, truth = c, t
        while isinstance(core, ast.UnaryOp) and isinstance(core.op, ast.Not):
            core, truth = core.operand, not truth
        if isinstance(core, ast.BoolOp) and ((isinstance(core.op, ast.And) and not truth) or (isinstance(core.op, ast.Or) and truth)):
            pending.append((core, truth))
    _equality_closure(f)
    changed = True
    while changed:
        changed = False
        for core, truth in pending:
            isand = isinstance(core.op, ast.And)
            unknown = []
            decided = False
            for v in core.values:
                lits = atoms(v, True)
                if len(lits) == 1 and lits[0][0] in f:
                    val = f[lits[0][0]] == lits[0][1]
                    if val != isand:  # a false conjunct / a true disjunct settles the clause
                        decided = True
                        break
                else:
                    unknown.append(v)
            if decided or len(unknown) != 1:
                continue
            for a, pol in atoms(unknown[0], not isand):
                if a not in f:
                    f[a] = pol
                    changed = True
    return f


def _first_ifexp(e):
    """The first conditional expression nested in `e` (not inside a lambda or comprehension, not in a test position)."""
    stack = [e]
    while stack:
        n = stack.pop(0)
        if isinstance(n, ast.IfExp):
            return n
        if isinstance(n, (ast.Lambda, ast.ListComp, ast.SetComp, ast.DictComp, ast.GeneratorExp)):
            continue
        if isinstance(n, ast.BoolOp):
            stack.append(n.values[0])  # later operands are evaluated conditionally
            continue
        stack.extend(ast.iter_child_nodes(n))
    return None


def ifexp_cases(e, depth: int = 4, nested: bool = False):
    """Case split of a conditional expression: [(value, [(condition, truth), ...])] (a plain expression is one case).
    nested=True also splits on a conditional expression nested in a larger one: f(a if c else b) -> f(a) | f(b)."""
    if nested and depth > 0 and isinstance(e, ast.AST) and not isinstance(e, ast.IfExp):
        n = _first_ifexp(e)
        if n is not None:
            c = canon_ast(n.test)
            out = []
            for branch, truth in ((n.body, True), (n.orelse, False)):
                for v, conds in ifexp_cases(_replace_node(e, n, branch), depth - 1, True):
                    out.append((v, [(c, truth)] + conds))
            return out
    if isinstance(e, ast.IfExp) and depth > 0:
        c = canon_ast(e.test)
        out = []
        for v, conds in ifexp_cases(e.body, depth - 1, nested):
            out.append((v, [(c, True)] + conds))
        for v, conds in ifexp_cases(e.orelse, depth - 1, nested):
            out.append((v, [(c, False)] + conds))
        return out
    return [(e, [])]


def facts_with(p: "Path", extra) -> Dict[str, bool]:
    """path_facts of `p` extended by extra (condition, truth) pairs."""
    q = p.clone()
    q.end = p.end
    for c, t in extra:
        q.conds.append((c, t, 0))
    return path_facts(q)


# functions the rules treat as atoms (their vocabulary): never inlined by the path engine
VOCABULARY = {
    "quantize_activation", "quantize_weight", "group", "ungroup", "absmax_scale", "dtype_info", "is_scalar", "cannot_mm", "qfallback",
    "pack_weights", "quantize_module", "set_module_by_name", "axis_to_dim", "get_qbytestensor_op_dispatch", "get_qbitstensor_op_dispatch",
    "get_qtensor_func", "pack", "unpack", "pack_v2", "unpack_v2", "reverse_awq_order", "quantize", "freeze", "requantize", "qbytes_mm",
    "qbytes_int_mm", "qbytes_int8pack_mm", "safe_save", "safe_load", "define", "register_qmodule", "register_qbytestensor_op",
    "register_qbitstensor_op", "register_qtensor_func", "disable_extensions",
}
KEEP_METHODS = {"_save_to_state_dict", "_load_from_state_dict", "_conv_forward", "_make_wrapper_subclass", "_int_mm", "_weight_int8pack_mm"}


def _replace_node(root: ast.AST, old: ast.AST, new: ast.AST) -> ast.AST:
    """A copy of `root` in which the node `old` (by identity) is replaced by a copy of `new`; `root` is left untouched."""
    if root is old:
        return copy.deepcopy(new)
    old._qv_mark = True
    try:
        dup = copy.deepcopy(root)
    finally:
        del old._qv_mark

    class R(ast.NodeTransformer):
        def visit(self, node):
            if getattr(node, "_qv_mark", False):
                return copy.deepcopy(new)
            return super().visit(node)

    return R().visit(dup)


class InlineCtx:
    """Resolution context of one module for the path engine's inliner."""

    def __init__(self, repo: "Repo", mi: ModuleInfo, cls: Optional[ClassInfo] = None):
        self.repo, self.mi, self.cls = repo, mi, cls
        self.module_functions = True

    def for_module(self, mi: ModuleInfo) -> "InlineCtx":
        if mi is self.mi:
            return self
        c = InlineCtx(self.repo, mi, None)
        c.module_functions = self.module_functions
        return c

    def resolve_constants(self, e: ast.AST, fn, p: "Path") -> ast.AST:
        mi = self.mi
        repo_ = self.repo
        local = set(params_of(fn)) | set(p.env) | set(p.closures)

        class C(ast.NodeTransformer):
            def visit_Call(self, node):
                # the callee position is left alone (calls are inlined elsewhere); arguments may be function values
                if not isinstance(node.func, ast.Name):
                    node.func = self.visit(node.func)
                node.args = [self.visit(a) for a in node.args]
                for k in node.keywords:
                    k.value = self.visit(k.value)
                return node

            def visit_Name(self, node):
                if isinstance(node.ctx, ast.Load) and node.id in p.closures and node.id not in p.env:
                    # a nested one-expression function passed as a value: the equivalent lambda
                    h = p.closures[node.id][0]
                    if isinstance(h, ast.FunctionDef) and not h.decorator_list and not h.args.vararg and not h.args.kwarg and not h.args.defaults and not h.args.kwonlyargs:
                        body = [b for b in h.body if not (isinstance(b, ast.Expr) and isinstance(b.value, ast.Constant))]
                        if len(body) == 1 and isinstance(body[0], ast.Return) and body[0].value is not None:
                            lam = ast.Lambda(args=ast.arguments(posonlyargs=[], args=[ast.arg(arg=a.arg) for a in h.args.args], vararg=None, kwonlyargs=[], kw_defaults=[], kwarg=None, defaults=[]), body=copy.deepcopy(body[0].value))
                            return ast.copy_location(lam, node)
                if isinstance(node.ctx, ast.Load) and node.id not in local and node.id.startswith("_") and not node.id.startswith("__") and node.id not in VOCABULARY:
                    # a private one-expression function passed as a value: the equivalent lambda
                    r = repo_.resolve(mi, node.id)
                    h = r[1] if r is not None else None
                    if isinstance(h, ast.FunctionDef) and not h.decorator_list and not h.args.vararg and not h.args.kwarg and not h.args.defaults and not h.args.kwonlyargs:
                        body = [b for b in h.body if not (isinstance(b, ast.Expr) and isinstance(b.value, ast.Constant))]
                        if len(body) == 1 and isinstance(body[0], ast.Return) and body[0].value is not None:
                            lam = ast.Lambda(args=ast.arguments(posonlyargs=[], args=[ast.arg(arg=a.arg) for a in h.args.args], vararg=None, kwonlyargs=[], kw_defaults=[], kwarg=None, defaults=[]), body=copy.deepcopy(body[0].value))
                            return ast.copy_location(lam, node)
                if isinstance(node.ctx, ast.Load) and node.id not in local and node.id.isupper() or (isinstance(node.ctx, ast.Load) and node.id not in local and node.id.startswith("_") and node.id[1:2].isupper()):
                    v = mi.defs.get(node.id)
                    if v is None and node.id in mi.imports:  # a constant imported from another module of the package
                        r = repo_.resolve(mi, node.id)
                        v = r[1] if r is not None else None
                    if isinstance(v, ast.Constant) and isinstance(v.value, (int, float, str)) and not isinstance(v.value, bool):
                        return ast.copy_location(ast.Constant(value=v.value), node)
                    def simple(x, d=0):
                        return isinstance(x, (ast.Constant, ast.Name)) or (isinstance(x, ast.UnaryOp) and isinstance(x.operand, ast.Constant)) \
                            or (isinstance(x, ast.Attribute) and attr_chain(x) is not None) or (d < 2 and isinstance(x, (ast.Tuple, ast.List)) and all(simple(y, d + 1) for y in x.elts))
                    if isinstance(v, ast.BinOp):
                        v = canon_ast(v)  # (None,) * 4
                    if isinstance(v, (ast.Tuple, ast.List)) and all(simple(x) for x in v.elts):
                        return ast.copy_location(copy.deepcopy(v), node)
                return node

        return C().visit(e)

    def first_inlinable(self, e: ast.AST, pe: "PathEnum", p: "Path"):
        """innermost call that resolves to a package helper outside the vocabulary: (node, fn, bound env, module)"""
        for node in _postorder(e):
            if not isinstance(node, ast.Call):
                continue
            f = node.func
            hfn, hmi, skip, closure_env = None, self.mi, 0, None
            if isinstance(f, ast.Name):
                if f.id in VOCABULARY:
                    continue
                if f.id in p.closures:
                    hfn, closure_env = p.closures[f.id]
                else:
                    r = self.repo.resolve(self.mi, f.id)
                    if r is not None and isinstance(r[1], ast.FunctionDef) and r[0].rel.startswith("optimum/"):
                        hmi, hfn = r
                    if hfn is not None and not self.module_functions and not _is_setter_procedure(hfn):
                        # value helpers stay calls in this mode (the rules look for them by name); a procedure that writes its argument in place
                        # (`_set_scale(module.input_scale, v)`) is the store itself and is always expanded
                        hfn, hmi = None, self.mi
                if hfn is not None and hfn.decorator_list:
                    hfn = None
            elif isinstance(f, ast.Attribute) and isinstance(f.value, ast.Name) and f.value.id in ("self", "cls") and self.cls is not None:
                if f.attr.startswith("_") and not f.attr.startswith("__") and f.attr not in KEEP_METHODS:
                    m = self.repo.method(self.cls, f.attr)
                    if m is not None and not any(U(d) in ("property",) for d in m[1].decorator_list):
                        hfn, hmi = m[1], m[0].mod
                        skip = 0 if any(U(d) == "staticmethod" for d in m[1].decorator_list) else 1
            elif isinstance(f, ast.Attribute) and isinstance(f.value, ast.Name) and not f.attr.startswith("__") and f.attr not in KEEP_METHODS \
                    and (f.attr.startswith("_") or (f.value.id.startswith("_") and not f.value.id.startswith("__") and f.value.id[1:2].isupper())):
                # a private static/class method, or any static/class method of a private namespace class (`_Helpers.run(...)`)
                r = self.repo.resolve(self.mi, f.value.id)
                if r is not None and isinstance(r[1], ast.ClassDef):
                    ci = next((c for c in self.repo.classes.get(r[1].name, []) if c.node is r[1]), None)
                    m = self.repo.method(ci, f.attr) if ci else None
                    if m is not None:
                        decos = [U(d) for d in m[1].decorator_list]
                        if "staticmethod" in decos:
                            hfn, hmi, skip = m[1], m[0].mod, 0
                        elif "classmethod" in decos:
                            hfn, hmi, skip = m[1], m[0].mod, 1
            if hfn is None or id(hfn) in pe._stack:
                continue
            if any(isinstance(n, (ast.Yield, ast.YieldFrom)) for n in ast.walk(hfn)):
                continue
            env = bind_call(hfn, node, skip_first=skip)
            if env is None:
                continue
            if skip:
                env[positional_params(hfn)[0]] = copy.deepcopy(f.value)
            if closure_env:
                for k, v in closure_env.items():
                    env.setdefault(k, v)
            return node, hfn, env, hmi
        return None


def _is_setter_procedure(fn) -> bool:
    """A module-level procedure (no valued return) that writes one of its parameters in place: `def _set(buf, v): buf.copy_(v)`."""
    params = set(positional_params(fn))
    if any(isinstance(n, ast.Return) and n.value is not None and not (isinstance(n.value, ast.Constant) and n.value.value is None) for n in ast.walk(fn)):
        return False
    return any(isinstance(n, ast.Call) and isinstance(n.func, ast.Attribute) and n.func.attr.endswith("_") and not n.func.attr.startswith("_")
               and isinstance(n.func.value, ast.Name) and n.func.value.id in params for n in ast.walk(fn))


def _postorder(e: ast.AST):
    for c in ast.iter_child_nodes(e):
        if isinstance(c, (ast.Lambda, ast.ListComp, ast.SetComp, ast.DictComp, ast.GeneratorExp)):
            continue
        yield from _postorder(c)
    yield e


class PathEnum:
    """Enumerates acyclic paths of one function with local substitution.

    Loops are summarised: the body is explored once (effects are tagged `in_loop`), names bound in the body are
    opaque afterwards.  try/except: the handler is an alternative to the body.  Nested defs are recorded as closures.
    """

    MAX_PATHS = 4000

    def __init__(self, fn: ast.FunctionDef, bind: Optional[dict] = None, ctx: Optional["InlineCtx"] = None, depth: int = 3):
        self.fn = fn
        self.bind = bind or {}
        self.out: List[Path] = []
        self._loops: List[List[Path]] = []
        self.ctx = ctx
        self.depth = depth
        self._stack: List[int] = [id(fn)]
        self.fork_returns = True  # an inlined helper keeps `a if c else b` as one value

    def run(self) -> List[Path]:
        p = Path()
        for k, v in self.bind.items():
            p.env[k] = v
        live = self.block(self.fn.body, [p])
        for q in live:
            q.end = ("fall", None, getattr(self.fn, "end_lineno", 0))
            self.out.append(q)
        return self.out

    def block(self, stmts, live: List[Path]) -> List[Path]:
        for st in stmts:
            nxt = []
            for p in live:
                nxt.extend(self.stmt(st, p))
            live = nxt
            if len(live) + len(self.out) > self.MAX_PATHS:
                raise AnalysisError(f"path explosion in {self.fn.name}")
            if not live:
                break
        return live

    def finish(self, p: Path, kind, expr, lineno):
        p.end = (kind, expr, lineno)
        self.out.append(p)

    def _finish_return(self, q: Path, val, lineno, depth=0):
        """`return a if c else b` is two return paths (c holds / does not hold)."""
        if self.fork_returns and val is not None and _first_ifexp(val) is not None:
            cases = ifexp_cases(val, nested=True)
            for i, (cv, extra) in enumerate(cases):
                qq = q if i == len(cases) - 1 else q.clone()
                for c, t in extra:
                    qq.conds.append((copy.deepcopy(c), t, lineno))
                self.finish(qq, "return", cv, lineno)
            return
        self.finish(q, "return", val, lineno)

    def stmt(self, st, p: Path) -> List[Path]:
        if isinstance(st, ast.Return):
            for val, q in self.sx(st.value, p, st):
                self._finish_return(q, val, st.lineno)
            return []
        if isinstance(st, ast.Raise):
            self.finish(p, "raise", subst(st.exc, p.env), st.lineno)
            return []
        if isinstance(st, (ast.Break, ast.Continue)):
            p.effects.append(("loopexit", type(st).__name__.lower(), st.lineno, p.in_loop))
            p.end = ("loopexit", None, st.lineno)
            if self._loops:
                self._loops[-1].append(p)
            else:
                self.out.append(p)
            return []
        if isinstance(st, ast.Assign):
            out = []
            for val, q in self.sx(st.value, p, st):
                local = all(isinstance(t, ast.Name) for t in st.targets)
                cases = ifexp_cases(val, nested=True) if (local and self.fork_returns and val is not None and _first_ifexp(val) is not None) else [(val, [])]
                for i, (cv, extra) in enumerate(cases):
                    qq = q if i == len(cases) - 1 else q.clone()
                    for c, t in extra:
                        qq.conds.append((copy.deepcopy(c), t, st.lineno))
                    for tgt in st.targets:
                        self.assign(tgt, cv, qq, st)
                    out.append(qq)
            return out
        if isinstance(st, ast.AnnAssign):
            if st.value is None:
                return [p]
            out = []
            for val, q in self.sx(st.value, p, st):
                self.assign(st.target, val, q, st)
                out.append(q)
            return out
        if isinstance(st, ast.AugAssign):
            if isinstance(st.target, ast.Name):
                cur = p.env.get(st.target.id, ast.Name(id=st.target.id, ctx=ast.Load()))
                val = ast.BinOp(left=copy.deepcopy(cur), op=st.op, right=subst(st.value, p.env))
                p.env[st.target.id] = val
            else:
                tgt = subst(_as_load(st.target), p.env)
                p.effects.append(("augstore", tgt, st.op, subst(st.value, p.env), st.lineno, p.in_loop))
            return [p]
        if isinstance(st, ast.If):
            out = []
            for c, q in self.sx(st.test, p, st):
                c = canon_ast(c)
                if isinstance(c, ast.Constant) and isinstance(c.value, (bool, type(None))):
                    # a helper that returned a literal on this path decides the branch
                    out.extend(self.block(st.body if c.value else st.orelse, [q]))
                    continue
                pt, pf = q, q.clone()
                pt.conds.append((c, True, st.lineno))
                pf.conds.append((copy.deepcopy(c), False, st.lineno))
                out.extend(self.block(st.body, [pt]) + self.block(st.orelse, [pf]))
            return out
        if isinstance(st, ast.Expr):
            out = []
            for val, q in self.sx(st.value, p, st):
                if isinstance(val, ast.Constant):
                    out.append(q)
                    continue
                q.effects.append(("expr", val, st.lineno, q.in_loop))
                # `owner.<buffer>.copy_(v)`: the registered buffer is written in place - for the rules about the VALUE a buffer holds this is the store
                # `owner.<buffer> = v` (the rules about aliasing read the "expr" effect above and tell the two apart)
                if (isinstance(val, ast.Call) and isinstance(val.func, ast.Attribute) and val.func.attr == "copy_" and len(val.args) >= 1 and isinstance(val.func.value, ast.Attribute)
                        and val.func.value.attr in INPLACE_STORE_BUFFERS):
                    q.effects.append(("store", val.func.value.value, val.func.value.attr, val.args[0], st.lineno, q.in_loop))
                out.append(q)
            return out
        if isinstance(st, ast.Assert):
            out = []
            for c, q in self.sx(st.test, p, st):
                c = canon_ast(c)
                q.conds.append((c, True, st.lineno))
                q.effects.append(("assert", copy.deepcopy(c), st.lineno, q.in_loop))
                out.append(q)
            return out
        if isinstance(st, (ast.Pass, ast.Import, ast.ImportFrom, ast.Nonlocal)):
            return [p]
        if isinstance(st, ast.Global):
            p.effects.append(("global", st.names, st.lineno, p.in_loop))
            return [p]
        if isinstance(st, ast.Delete):
            p.effects.append(("del", [subst(_as_load(t), p.env) for t in st.targets], st.lineno, p.in_loop))
            return [p]
        if isinstance(st, (ast.FunctionDef, ast.AsyncFunctionDef)):
            p.closures[st.name] = (st, dict(p.env))
            p.env.pop(st.name, None)
            return [p]
        if isinstance(st, ast.ClassDef):
            return [p]
        if isinstance(st, (ast.For, ast.AsyncFor)):
            it = subst(st.iter, p.env)
            body_p = p.clone()
            body_p.in_loop += 1
            self.assign(st.target, opaque("elem", it), body_p, st)
            body_p.effects.append(("loop", it, st.lineno, p.in_loop))
            self._loops.append([])
            ends = self.block(st.body, [body_p])
            ends = ends + self._loops.pop()
            return self._after_loop(p, ends, st)
        if isinstance(st, ast.While):
            body_p = p.clone()
            body_p.in_loop += 1
            # names rebound in the body are unknown at the loop head
            for n in _bound_names(st.body):
                body_p.env[n] = opaque("loopvar", n, st.lineno)
            c = subst(st.test, body_p.env)
            body_p.conds.append((c, True, st.lineno))
            body_p.effects.append(("loop", c, st.lineno, p.in_loop))
            self._loops.append([])
            ends = self.block(st.body, [body_p])
            ends = ends + self._loops.pop()
            return self._after_loop(p, ends, st)
        if isinstance(st, (ast.With, ast.AsyncWith)):
            for item in st.items:
                ce = subst(item.context_expr, p.env)
                p.ctx.append(("with", ce, st.lineno))
                p.effects.append(("with", ce, st.lineno, p.in_loop))
                if item.optional_vars is not None:
                    self.assign(item.optional_vars, opaque("ctxvalue", ce), p, st)
            live = self.block(st.body, [p])
            for q in live:
                q.ctx = [c for c in q.ctx if not (c[0] == "with" and c[2] == st.lineno)]
            return live
        if isinstance(st, ast.Try):
            marker = ("try", st.lineno)
            results = []
            body_p = p.clone()
            body_p.ctx.append(("try", None, st.lineno, bool(st.finalbody)))
            before = len(self.out)
            live = self.block(st.body, [body_p])
            live = self.block(st.orelse, live) if st.orelse else live
            results.extend(live)
            for h in st.handlers:
                hp = p.clone()
                hp.conds.append((opaque("raised", U(h.type) if h.type else "BaseException", st.lineno), True, st.lineno))
                if h.name:
                    hp.env[h.name] = opaque("exception", st.lineno)
                results.extend(self.block(h.body, [hp]))
            for q in results:
                q.ctx = [c for c in q.ctx if not (c[0] == "try" and c[2] == st.lineno)]
            if st.finalbody:
                results = self.block(st.finalbody, results)
                # finished paths (return/raise inside try) also run the finaliser: record its effects
                for q in self.out[before:]:
                    fin = PathEnum(ast.FunctionDef(name="__finally__", args=self.fn.args, body=st.finalbody, decorator_list=[], lineno=st.lineno), {})
                    q.effects.append(("finally", st.finalbody, st.lineno, q.in_loop))
            return results
        if isinstance(st, ast.Match):
            raise AnalysisError(f"match statement at line {st.lineno} not modelled")
        raise AnalysisError(f"statement {type(st).__name__} at line {st.lineno} not modelled")

    def _after_loop(self, p: Path, ends: List[Path], st) -> List[Path]:
        """Continue after the loop: zero iterations (p) joined with body results; names bound in the body become opaque."""
        bound = _bound_names(st.body) | ({n.id for n in ast.walk(st.target) if isinstance(n, ast.Name)} if hasattr(st, "target") else set())
        after = p.clone()
        for q in ends:
            for e in q.effects[len(p.effects):]:
                after.effects.append(e)
        for n in bound:
            after.env[n] = opaque("loopvar", n, st.lineno)
        after.closures.update({k: v for q in ends for k, v in q.closures.items()})
        live = [after]
        if getattr(st, "orelse", None):
            live = self.block(st.orelse, live)
        return live

    # -- substitution + inlining of package helpers ---------------------------------------------
    def sx(self, expr, p: Path, st) -> List[Tuple[ast.AST, Path]]:
        """Substitute locals, resolve module constants, and inline calls to package helpers that are not part of the
        rules' vocabulary.  A helper with several paths forks the caller's path; a raising helper path ends it."""
        if expr is None:
            return [(None, p)]
        e = subst(expr, p.env)
        if self.ctx is None or self.depth <= 0:
            return [(canon_ast(e), p)]
        e = canon_ast(self.ctx.resolve_constants(e, self.fn, p))  # every value the rules see is canonically spelled
        results = [(e, p)]
        for _ in range(6):  # a few inlinable calls per statement at most
            nxt, changed = [], False
            for ex, q in results:
                call = self.ctx.first_inlinable(ex, self, q)
                if call is None:
                    nxt.append((ex, q))
                    continue
                changed = True
                node, hfn, henv, hmi = call
                sub = PathEnum(hfn, henv, ctx=self.ctx.for_module(hmi), depth=self.depth - 1)
                sub._stack = self._stack + [id(hfn)]
                sub.fork_returns = False
                for hp in sub.run():
                    if not path_feasible(hp):
                        continue
                    q2 = q.clone()
                    q2.conds.extend(hp.conds)
                    q2.effects.extend(hp.effects)
                    if hp.end[0] == "raise":
                        self.finish(q2, "raise", hp.end[1], hp.end[2])
                        continue
                    ret = hp.end[1] if hp.end[0] == "return" and hp.end[1] is not None else ast.Constant(value=None)
                    nxt.append((_replace_node(ex, node, ret), q2))
            results = nxt
            if not changed:
                break
        return results

    def assign(self, tgt, val, p: Path, st):
        if isinstance(tgt, ast.Name):
            p.env[tgt.id] = val
        elif isinstance(tgt, (ast.Tuple, ast.List)):
            if isinstance(val, (ast.Tuple, ast.List)) and len(val.elts) == len(tgt.elts) and not any(isinstance(e, ast.Starred) for e in tgt.elts + val.elts):
                for t, v in zip(tgt.elts, val.elts):
                    self.assign(t, v, p, st)
            else:
                p.effects.append(("unpack", val, len(tgt.elts), st.lineno, p.in_loop))
                for i, e in enumerate(tgt.elts):
                    if isinstance(e, ast.Starred):
                        self.assign(e.value, opaque("starred", val, i), p, st)
                    else:
                        self.assign(e, ast.Subscript(value=copy.deepcopy(val), slice=ast.Constant(value=i), ctx=ast.Load()), p, st)
        elif isinstance(tgt, ast.Attribute):
            p.effects.append(("store", subst(tgt.value, p.env), tgt.attr, val, st.lineno, p.in_loop))
        elif isinstance(tgt, ast.Subscript):
            p.effects.append(("substore", subst(tgt.value, p.env), subst(tgt.slice, p.env), val, st.lineno, p.in_loop))
        else:
            raise AnalysisError(f"assignment target {type(tgt).__name__} at line {st.lineno}")


def _as_load(t):
    t = copy.deepcopy(t)
    for n in ast.walk(t):
        if hasattr(n, "ctx"):
            n.ctx = ast.Load()
    return t


def _bound_names(stmts) -> set:
    out = set()
    for st in stmts:
        for n in ast.walk(st):
            if isinstance(n, ast.Name) and isinstance(n.ctx, ast.Store):
                out.add(n.id)
    return out


def path_feasible(p: "Path") -> bool:
    """False when two path conditions assign opposite truth values to the same atom (no store in between is modelled:
    conditions are pure reads of parameters/attributes in the analysed functions)."""
    f: Dict[str, bool] = {}
    for c, t, _ in p.conds:
        for a, pol in atoms(c, t):
            if a in f and f[a] != pol:
                return False
            f[a] = pol
    pf = path_facts(p)
    for c, t, _ in p.conds:
        core, truth = c, t
        while isinstance(core, ast.UnaryOp) and isinstance(core.op, ast.Not):
            core, truth = core.operand, not truth
        if isinstance(core, ast.BoolOp):
            isand = isinstance(core.op, ast.And)
            vals = []
            for v in core.values:
                lits = atoms(v, True)
                vals.append(pf[lits[0][0]] == lits[0][1] if len(lits) == 1 and lits[0][0] in pf else None)
            if isand and truth is False and all(v is True for v in vals):
                return False
            if (not isand) and truth is True and all(v is False for v in vals):
                return False
    return True


INPLACE_STORE_BUFFERS = ("input_scale", "output_scale")  # the registered activation-scale buffers of a quantized module
ACTIVE_REPO: Optional["Repo"] = None
_MODULE_OF: Dict[int, ModuleInfo] = {}
_CLASS_OF: Dict[int, ClassInfo] = {}


def set_active_repo(repo: "Repo"):
    """Lets the path engine expand import aliases of external modules (`F.linear` -> `torch.nn.functional.linear`)."""
    global ACTIVE_REPO
    ACTIVE_REPO = repo
    _MODULE_OF.clear()
    _CLASS_OF.clear()
    for mi in repo.modules.values():
        for n in ast.walk(mi.tree):
            if isinstance(n, (ast.FunctionDef, ast.AsyncFunctionDef)):
                _MODULE_OF[id(n)] = mi
    for lst in repo.classes.values():
        for ci in lst:
            for n in ast.walk(ci.node):
                if isinstance(n, (ast.FunctionDef, ast.AsyncFunctionDef)):
                    _CLASS_OF.setdefault(id(n), ci)
    _SIGNATURES.clear()
    _CANON_CACHE.clear()
    _NAMEDTUPLES.clear()
    for lst in repo.classes.values():
        for ci in lst:
            if any(b.split(".")[-1] == "NamedTuple" for b in ci.bases):
                _NAMEDTUPLES[ci.name] = [n.target.id for n in ci.node.body if isinstance(n, ast.AnnAssign) and isinstance(n.target, ast.Name)]
    counts: Dict[str, int] = {}
    for mi in repo.modules.values():
        if not mi.rel.startswith("optimum/"):
            continue
        for name, node in mi.defs.items():
            if isinstance(node, (ast.FunctionDef, ast.ClassDef)):
                counts[name] = counts.get(name, 0) + 1
    for mi in repo.modules.values():
        if not mi.rel.startswith("optimum/"):
            continue
        for name, node in mi.defs.items():
            if counts.get(name) != 1:
                continue
            if isinstance(node, ast.FunctionDef) and not node.args.vararg and not node.args.kwarg:
                _SIGNATURES[name] = node
            elif isinstance(node, ast.ClassDef):
                ci = next((c for c in repo.classes.get(name, []) if c.node is node), None)
                m = repo.method(ci, "__init__") if ci else None
                if m is not None and not m[1].args.vararg and not m[1].args.kwarg:
                    _SIGNATURES[name] = m[1]


class _Qualify(ast.NodeTransformer):
    def __init__(self, repo: "Repo", mi: ModuleInfo, local_names: set):
        self.repo, self.mi, self.local = repo, mi, local_names

    def visit_Attribute(self, node):
        ch = attr_chain(node)
        if ch is not None:
            head = ch.split(".")[0]
            if head not in self.local and head in self.mi.imports:
                target, orig = self.mi.imports[head]
                if target not in self.repo.modules and not (orig and f"{target}.{orig}" in self.repo.modules):
                    full = target if orig is None else f"{target}.{orig}"
                    if full != head and (orig is not None or full.split(".")[0] != head or "." in full):
                        rest = ch.split(".")[1:]
                        new = ast.parse(".".join([full] + rest), mode="eval").body
                        return ast.copy_location(new, node)
            return node
        self.generic_visit(node)
        return node


def _qualify_path(p: Path, q: "_Qualify"):
    def fx(e):
        return q.visit(e) if isinstance(e, ast.AST) and not isinstance(e, ast.stmt) else e

    p.conds = [(fx(c), t, ln) for c, t, ln in p.conds]
    p.effects = [tuple(fx(x) for x in ef) for ef in p.effects]
    if p.end is not None and p.end[1] is not None:
        p.end = (p.end[0], fx(p.end[1]), p.end[2])
    p.ctx = [tuple(fx(x) for x in c) for c in p.ctx]


def paths_of(fn: ast.FunctionDef, bind: Optional[dict] = None, prune: bool = True, inline_helpers=True) -> List[Path]:
    """inline_helpers: True (closures, private methods, module-level helpers outside the vocabulary), "methods" (closures and
    private methods only), False (nothing)."""
    mi = _MODULE_OF.get(id(fn))
    ctx = None
    if inline_helpers and ACTIVE_REPO is not None and mi is not None:
        ctx = InlineCtx(ACTIVE_REPO, mi, _CLASS_OF.get(id(fn)))
        ctx.module_functions = inline_helpers is True
    ps = PathEnum(fn, bind, ctx=ctx).run()
    if ACTIVE_REPO is not None and mi is not None:
        local = set(params_of(fn)) | _bound_names(fn.body)
        q = _Qualify(ACTIVE_REPO, mi, local)
        for p in ps:
            _qualify_path(p, q)
    return [p for p in ps if path_feasible(p)] if prune else ps


def canon_function(fn: ast.FunctionDef) -> ast.FunctionDef:
    """A canonically spelled deep copy of a function (for the abstract interpreters), registered under the module/class of the original."""
    if id(fn) in _CANON_FN:
        return _CANON_FN[id(fn)]
    c = copy.deepcopy(fn)
    c = ast.fix_missing_locations(_Canon().visit(c))
    _CANON_FN[id(fn)] = c
    _CANON_FN[id(c)] = c
    _KEEPALIVE.append(fn)
    if id(fn) in _MODULE_OF:
        _MODULE_OF[id(c)] = _MODULE_OF[id(fn)]
        for n in ast.walk(c):
            if isinstance(n, ast.FunctionDef):
                _MODULE_OF[id(n)] = _MODULE_OF[id(fn)]
    if id(fn) in _CLASS_OF:
        _CLASS_OF[id(c)] = _CLASS_OF[id(fn)]
    _KEEPALIVE.append(c)
    return c


_KEEPALIVE: list = []
_CANON_FN: Dict[int, ast.FunctionDef] = {}
_PRED_FN: Dict[int, ast.FunctionDef] = {}


def canon_function_inlined(fn: ast.FunctionDef, helpers: Optional[dict] = None) -> ast.FunctionDef:
    """canon_function of `fn` with its pure predicate helpers (module-level or given) inlined as expressions (cached)."""
    if id(fn) in _PRED_FN:
        return _PRED_FN[id(fn)]
    helpers = helpers or {}

    def lookup(name):
        h = helpers.get(name)
        if isinstance(h, ast.FunctionDef):
            return h
        h = module_lookup(fn, name)
        return h if isinstance(h, ast.FunctionDef) else None

    inl = inline_predicates(fn, lookup)
    if id(fn) in _MODULE_OF:
        _MODULE_OF[id(inl)] = _MODULE_OF[id(fn)]
    if id(fn) in _CLASS_OF:
        _CLASS_OF[id(inl)] = _CLASS_OF[id(fn)]
    _KEEPALIVE.append(inl)
    c = canon_function(inl)
    _PRED_FN[id(fn)] = c
    _PRED_FN[id(c)] = c
    _KEEPALIVE.append(fn)
    return c


def namespace_method(fn: ast.FunctionDef, cls_name: str, meth: str):
    """The static method `meth` of the module-level class `cls_name` visible from `fn` (a private namespace class), or None."""
    c = module_lookup(fn, cls_name)
    if not isinstance(c, ast.ClassDef):
        return None
    for n in c.body:
        if isinstance(n, ast.FunctionDef) and n.name == meth and any(ast.unparse(d) == "staticmethod" for d in n.decorator_list):
            if id(fn) in _MODULE_OF and id(n) not in _MODULE_OF:
                _MODULE_OF[id(n)] = _MODULE_OF[id(fn)]
            return n
    return None


def module_lookup(fn: ast.FunctionDef, name: str):
    """Module-level definition `name` visible from the module of `fn` (function def, class def or assigned value)."""
    mi = _MODULE_OF.get(id(fn))
    if mi is None or ACTIVE_REPO is None:
        return None
    r = ACTIVE_REPO.resolve(mi, name)
    return r[1] if r is not None else None


def loop_body_paths(outer: ast.FunctionDef, loop: ast.For, pre_env: Optional[dict] = None) -> List[Path]:
    """Paths of one iteration of `loop` (a For node of `outer`): the loop target is bound to an opaque element of the
    iterable, names assigned before the loop in straight-line code are substituted."""
    env = dict(pre_env or {})
    # straight-line assignments of the enclosing function that precede the loop
    for st in outer.body:
        if st is loop:
            break
        if isinstance(st, ast.Assign) and len(st.targets) == 1:
            t = st.targets[0]
            if isinstance(st.value, (ast.Dict, ast.List, ast.Set)) or (isinstance(st.value, ast.Call) and isinstance(st.value.func, ast.Name) and st.value.func.id in ("dict", "list", "set")):
                continue  # a container that the loop fills keeps its name
            val = subst(st.value, env)
            if isinstance(t, ast.Name):
                env[t.id] = val
            elif isinstance(t, ast.Tuple) and all(isinstance(x, ast.Name) for x in t.elts):
                for i, x in enumerate(t.elts):
                    env[x.id] = ast.Subscript(value=copy.deepcopy(val), slice=ast.Constant(value=i), ctx=ast.Load())
    it = subst(loop.iter, env)
    body_fn = ast.FunctionDef(name=outer.name, args=outer.args, body=loop.body, decorator_list=[], lineno=loop.lineno)
    mi = _MODULE_OF.get(id(outer))
    ctx = InlineCtx(ACTIVE_REPO, mi, _CLASS_OF.get(id(outer))) if (ACTIVE_REPO is not None and mi is not None) else None
    pe = PathEnum(body_fn, env, ctx=ctx)
    pe._stack = [id(outer), id(body_fn)]
    p0 = Path()
    p0.env.update(env)
    pe.assign(loop.target, opaque("elem", it), p0, loop)
    live = pe.block(loop.body, [p0])
    for q in live:
        q.end = ("fall", None, getattr(loop, "end_lineno", loop.lineno))
        pe.out.append(q)
    return [q for q in pe.out if path_feasible(q)]


def predicate_expr(fn: ast.FunctionDef) -> Optional[ast.AST]:
    """A side-effect-free helper made of local assignments, `if c: return a` guards and a final return, as ONE expression of its
    parameters (early `return False/True` become conjunctions / disjunctions).  None when the function has any other statement."""

    def simp(c, t, e):
        def const(x, v):
            return isinstance(x, ast.Constant) and x.value is v
        if const(t, False):
            return ast.BoolOp(op=ast.And(), values=[ast.UnaryOp(op=ast.Not(), operand=c), e])
        if const(t, True):
            return ast.BoolOp(op=ast.Or(), values=[c, e])
        if const(e, False):
            return ast.BoolOp(op=ast.And(), values=[c, t])
        if const(e, True):
            return ast.BoolOp(op=ast.Or(), values=[ast.UnaryOp(op=ast.Not(), operand=c), t])
        return ast.IfExp(test=c, body=t, orelse=e)

    def conv(stmts, env, depth):
        if depth > 12:
            return None
        if not stmts:
            return ast.Constant(value=None)
        st, rest = stmts[0], list(stmts[1:])
        if isinstance(st, ast.Expr) and isinstance(st.value, ast.Constant):
            return conv(rest, env, depth)
        if isinstance(st, ast.Pass):
            return conv(rest, env, depth)
        if isinstance(st, ast.Return):
            return subst(st.value, env) if st.value is not None else ast.Constant(value=None)
        if isinstance(st, ast.Assign) and len(st.targets) == 1:
            t = st.targets[0]
            v = subst(st.value, env)
            if isinstance(t, ast.Name):
                return conv(rest, {**env, t.id: v}, depth)
            if isinstance(t, ast.Tuple) and all(isinstance(x, ast.Name) for x in t.elts):
                e2 = dict(env)
                if isinstance(v, (ast.Tuple, ast.List)) and len(v.elts) == len(t.elts):
                    for x, y in zip(t.elts, v.elts):
                        e2[x.id] = y
                else:
                    for i, x in enumerate(t.elts):
                        e2[x.id] = ast.Subscript(value=copy.deepcopy(v), slice=ast.Constant(value=i), ctx=ast.Load())
                return conv(rest, e2, depth)
            return None
        if isinstance(st, ast.If):
            c = subst(st.test, env)
            t = conv(list(st.body) + rest, env, depth + 1)
            e = conv(list(st.orelse) + rest, env, depth + 1)
            if t is None or e is None:
                return None
            return simp(c, t, e)
        return None

    try:
        r = conv(list(fn.body), {}, 0)
    except RecursionError:
        return None
    return canon_ast(r) if r is not None else None


def inline_predicates(fn: ast.FunctionDef, lookup, depth: int = 2) -> ast.FunctionDef:
    """A copy of `fn` in which calls to pure predicate helpers (see predicate_expr) are replaced by their expression.
    `lookup(name)` returns the helper's FunctionDef or None."""

    class T(ast.NodeTransformer):
        def __init__(self, d):
            self.d = d

        def visit_FunctionDef(self, node):
            if node is not root:
                return node  # nested defs keep their own calls
            self.generic_visit(node)
            return node

        def visit_Call(self, node):
            self.generic_visit(node)
            if self.d <= 0 or not isinstance(node.func, ast.Name) or node.func.id in VOCABULARY:
                return node
            h = lookup(node.func.id)
            if not isinstance(h, ast.FunctionDef) or h is fn:
                return node
            env = bind_call(h, node)
            if env is None:
                return node
            pe = predicate_expr(h)
            if pe is None:
                return node
            pe = T(self.d - 1).visit(subst(pe, env))
            return ast.copy_location(pe, node)

    root = copy.deepcopy(fn)
    out = T(depth).visit(root)
    return ast.fix_missing_locations(out)


_BOOL_FN: dict = {}


def with_boolean_helpers(fn):
    """`fn` with the calls to module-level helpers that return a truth value (a guard moved into `_quantizes_activations(module)`) replaced
    by their expression; helpers that compute scales stay calls (the rules look for them)."""
    if id(fn) in _BOOL_FN:
        return _BOOL_FN[id(fn)]

    def boolean(e):
        if isinstance(e, ast.BoolOp):
            return all(boolean(v) for v in e.values)
        if isinstance(e, ast.UnaryOp) and isinstance(e.op, ast.Not):
            return True
        if isinstance(e, ast.Compare):
            return True
        if isinstance(e, ast.Constant) and isinstance(e.value, bool):
            return True
        return isinstance(e, ast.Call) and U(e.func) in ("isinstance", "issubclass", "hasattr", "callable", "bool")

    def lookup(name):
        h = module_lookup(fn, name)
        if isinstance(h, ast.FunctionDef) and all(r.value is not None and boolean(r.value) for r in ast.walk(h) if isinstance(r, ast.Return)):
            return h
        return None

    inl = inline_predicates(fn, lookup)
    for reg in (_MODULE_OF, _CLASS_OF):
        if id(fn) in reg:
            reg[id(inl)] = reg[id(fn)]
    _BOOL_FN[id(fn)] = inl
    return inl


def views_on_inputs(fn: ast.FunctionDef, extra_names=()) -> List[ast.Call]:
    """`.view(...)` calls whose receiver is a parameter of `fn` (or one of `extra_names`, e.g. saved tensors), possibly through
    .t()/.transpose()/.permute(): such a tensor comes from the caller with any stride, and view() requires a compatible one."""
    names = set(positional_params(fn)) | set(extra_names)
    out = []
    for nd in ast.walk(fn):
        if isinstance(nd, ast.Call) and isinstance(nd.func, ast.Attribute) and nd.func.attr == "view":
            r = nd.func.value
            while isinstance(r, ast.Call) and isinstance(r.func, ast.Attribute) and r.func.attr in ("t", "transpose", "permute", "detach"):
                r = r.func.value
            while isinstance(r, ast.Attribute) and r.attr in ("T", "_data", "data"):
                r = r.value
            if isinstance(r, ast.Name) and r.id in names:
                # view(dtype) re-interprets the element type, not the geometry
                if len(nd.args) == 1 and isinstance(nd.args[0], ast.Attribute) and ast.unparse(nd.args[0]).startswith("torch."):
                    continue
                out.append(nd)
    return out


def path_calls(fn: ast.FunctionDef, name: str) -> List[ast.Call]:
    """Calls to the package function `name` met on any path of `fn`, with private helpers inlined and locals substituted
    (so a call moved into a helper, or spelled with other argument conventions, is still found once per distinct spelling)."""
    seen, out = set(), []

    def visit(x):
        if isinstance(x, ast.AST):
            for n in ast.walk(x):
                if isinstance(n, ast.Call) and U(n.func) == name:
                    k = U(n)
                    if k not in seen:
                        seen.add(k)
                        out.append(n)
        elif isinstance(x, (list, tuple)):
            for y in x:
                visit(y)

    for p in paths_of(fn):
        for c, _, _ in p.conds:
            visit(c)
        for ef in p.effects:
            visit(list(ef))
        if p.end:
            visit(p.end[1])
        visit(list(p.env.values()))
    return out


def returns(paths: Iterable[Path]) -> List[Path]:
    return [p for p in paths if p.end and p.end[0] == "return"]


def non_raising(paths: Iterable[Path]) -> List[Path]:
    return [p for p in paths if p.end and p.end[0] in ("return", "fall")]


def raising(paths: Iterable[Path]) -> List[Path]:
    return [p for p in paths if p.end and p.end[0] == "raise"]


# ----------------------------------------------------------------------------------------------
# Inlining of package helpers
# ----------------------------------------------------------------------------------------------
def bind_call(fn: ast.FunctionDef, call: ast.Call, skip_first: int = 0) -> Optional[dict]:
    """Map the parameters of `fn` to the argument expressions of `call` (None if *args/**kwargs prevent it)."""
    if any(isinstance(a, ast.Starred) for a in call.args) or any(k.arg is None for k in call.keywords):
        return None
    pos = positional_params(fn)[skip_first:]
    env = {}
    if len(call.args) > len(pos) and fn.args.vararg is None:
        return None
    for pname, a in zip(pos, call.args):
        env[pname] = a
    if fn.args.vararg is not None and len(call.args) > len(pos):
        env[fn.args.vararg.arg] = ast.Tuple(elts=list(call.args[len(pos):]), ctx=ast.Load())
    allp = set(params_of(fn))
    for k in call.keywords:
        if k.arg not in allp or k.arg in env:
            if fn.args.kwarg is None:
                return None
            continue
        env[k.arg] = k.value
    for pname, d in defaults_of(fn).items():
        env.setdefault(pname, d)
    for pname in pos:
        if pname not in env:
            return None
    return env


class Inliner(ast.NodeTransformer):
    """Replace calls to single-return-path package functions by their (substituted) return expression."""

    memo_ok = False  # read through memoising decorators (lru_cache / cache): same values, but one shared object - only for callers that have settled the aliasing question

    def __init__(self, repo: Repo, mi: ModuleInfo, depth: int = 3, closures: Optional[dict] = None):
        self.repo, self.mi, self.depth, self.closures = repo, mi, depth, closures or {}

    def visit_Call(self, node):
        self.generic_visit(node)
        if self.depth <= 0 or not isinstance(node.func, ast.Name):
            return node
        name = node.func.id
        fn, fmi = None, None
        if name in self.closures:
            fn, cenv = self.closures[name]
            fmi = self.mi
        else:
            r = self.repo.resolve(self.mi, name)
            if r is not None and isinstance(r[1], ast.FunctionDef):
                fmi, fn = r
        if fn is None:
            return node
        if fn.decorator_list and not (self.memo_ok and all(U(d.func if isinstance(d, ast.Call) else d) in ("lru_cache", "functools.lru_cache", "cache", "functools.cache") for d in fn.decorator_list)):
            return node
        env = bind_call(fn, node)
        if env is None:
            return node
        try:
            ps = paths_of(fn, env)
        except AnalysisError:
            return node
        rets = [p for p in ps if p.end[0] != "raise"]
        if len(rets) == 1 and rets[0].end[0] == "return" and len(ps) == 1 and rets[0].end[1] is not None:
            out = rets[0].end[1]
            sub = Inliner(self.repo, fmi, self.depth - 1)
            sub.memo_ok = self.memo_ok
            return sub.visit(out)
        return node


def inline(repo: Repo, mi: ModuleInfo, expr, depth=3, closures=None, memo_ok=False):
    inl = Inliner(repo, mi, depth, closures)
    inl.memo_ok = memo_ok
    return inl.visit(copy.deepcopy(expr))


# ----------------------------------------------------------------------------------------------
# Term normalisation
# ----------------------------------------------------------------------------------------------
ALIASES = {
    "clip": "clamp", "clip_": "clamp", "clamp_": "clamp", "round_": "round", "true_divide": "div", "divide": "div",
    "multiply": "mul", "subtract": "sub", "absolute": "abs", "matmul": "matmul", "mm": "matmul", "type": "to",
    "negative": "neg", "bitwise_and": "and", "bitwise_or": "or", "bitwise_right_shift": "rshift",
    "bitwise_left_shift": "lshift", "__rshift__": "rshift", "__lshift__": "lshift", "reshape": "reshape",
}
BINOPS = {
    ast.Add: "add", ast.Sub: "sub", ast.Mult: "mul", ast.Div: "div", ast.FloorDiv: "floordiv", ast.Mod: "mod",
    ast.Pow: "pow", ast.MatMult: "matmul", ast.BitAnd: "and", ast.BitOr: "or", ast.LShift: "lshift", ast.RShift: "rshift",
    ast.BitXor: "xor",
}
TORCH_NS = {"torch", "torch.nn.functional", "F"}


def N(e) -> tuple:
    """Normalise an expression to an S-expression.

    ('name', id) ('const', v) ('attr', base, name) ('m', fname, recv, args, kwargs) for method-or-torch-function
    calls (torch.f(x, ...) == x.f(...)), ('call', func, args, kwargs) for other calls, ('sub', base, index),
    ('tuple'|'list', items), ('ifexp', test, a, b), ('not', x), ('cmp', op, a, b), ('bool', 'and'|'or', items).
    """
    if e is None:
        return ("none",)
    if isinstance(e, ast.Constant):
        return ("const", e.value)
    if isinstance(e, ast.Name):
        return ("name", e.id)
    if isinstance(e, ast.Attribute):
        if e.attr == "T":
            return ("m", "t", N(e.value), (), ())
        return ("attr", N(e.value), e.attr)
    if isinstance(e, ast.BinOp):
        op = BINOPS.get(type(e.op))
        if op is None:
            return ("expr", U(e))
        return ("m", op, N(e.left), (N(e.right),), ())
    if isinstance(e, ast.UnaryOp):
        if isinstance(e.op, ast.USub):
            if isinstance(e.operand, ast.Constant) and isinstance(e.operand.value, (int, float)):
                return ("const", -e.operand.value)
            return ("m", "neg", N(e.operand), (), ())
        if isinstance(e.op, ast.Not):
            return ("not", N(e.operand))
        return ("expr", U(e))
    if isinstance(e, ast.Call):
        kw = tuple(sorted(((k.arg or "**"), N(k.value)) for k in e.keywords))
        args = tuple(N(a) for a in e.args)
        f = e.func
        if isinstance(f, ast.Attribute):
            base = U(f.value)
            name = ALIASES.get(f.attr, f.attr)
            if base in TORCH_NS:
                if args:
                    return ("m", name, args[0], args[1:], kw)
                return ("m", name, ("none",), (), kw)
            return ("m", name, N(f.value), args, kw)
        return ("call", N(f), args, kw)
    if isinstance(e, ast.Subscript):
        return ("sub", N(e.value), N(e.slice))
    if isinstance(e, ast.Slice):
        return ("slice", N(e.lower), N(e.upper), N(e.step))
    if isinstance(e, ast.Tuple):
        return ("tuple", tuple(N(x) for x in e.elts))
    if isinstance(e, ast.List):
        return ("list", tuple(N(x) for x in e.elts))
    if isinstance(e, ast.Starred):
        return ("star", N(e.value))
    if isinstance(e, ast.IfExp):
        return ("ifexp", N(e.test), N(e.body), N(e.orelse))
    if isinstance(e, ast.Compare) and len(e.ops) == 1:
        return ("cmp", type(e.ops[0]).__name__, N(e.left), N(e.comparators[0]))
    if isinstance(e, ast.BoolOp):
        return ("bool", "and" if isinstance(e.op, ast.And) else "or", tuple(N(v) for v in e.values))
    return ("expr", U(e))


def show(t) -> str:
    """Readable rendering of a normalised term."""
    if not isinstance(t, tuple) or not t:
        return repr(t)
    k = t[0]
    if k == "name":
        return t[1]
    if k == "const":
        return repr(t[1])
    if k == "none":
        return "None"
    if k == "attr":
        return f"{show(t[1])}.{t[2]}"
    if k == "m":
        args = [show(a) for a in t[3]] + [f"{n}={show(v)}" for n, v in t[4]]
        return f"{show(t[2])}.{t[1]}({', '.join(args)})"
    if k == "call":
        args = [show(a) for a in t[2]] + [f"{n}={show(v)}" for n, v in t[3]]
        return f"{show(t[1])}({', '.join(args)})"
    if k == "sub":
        return f"{show(t[1])}[{show(t[2])}]"
    if k in ("tuple", "list"):
        return "(" + ", ".join(show(x) for x in t[1]) + ")"
    if k == "expr":
        return t[1]
    return "(" + " ".join(show(x) if isinstance(x, tuple) else str(x) for x in t) + ")"


def is_m(t, name=None):
    return isinstance(t, tuple) and len(t) == 5 and t[0] == "m" and (name is None or t[1] == name or (isinstance(name, (set, tuple, frozenset)) and t[1] in name))


def kwget(t, key, pos=None):
    """Argument of a normalised call by keyword or position (position counted after the receiver)."""
    for n, v in t[4] if t[0] == "m" else t[3]:
        if n == key:
            return v
    args = t[3] if t[0] == "m" else t[2]
    if pos is not None and pos < len(args):
        return args[pos]
    return None


def name_t(s: str) -> tuple:
    """Build the normalised term of a dotted name: 'a.b.c'."""
    parts = s.split(".")
    t = ("name", parts[0])
    for p in parts[1:]:
        t = ("attr", t, p)
    return t


def walk_t(t):
    """All sub-terms of a normalised term."""
    if isinstance(t, tuple):
        if t and isinstance(t[0], str):
            yield t
        for x in t:
            if isinstance(x, tuple):
                yield from walk_t(x)


def calls_in(e: ast.AST) -> List[ast.Call]:
    return [n for n in ast.walk(e) if isinstance(n, ast.Call)]


def contains_name(e: ast.AST, name: str) -> bool:
    return any(isinstance(n, ast.Name) and n.id == name for n in ast.walk(e))


def attr_chain(e) -> Optional[str]:
    """'a.b.c' for a pure attribute chain over a name, else None."""
    parts = []
    while isinstance(e, ast.Attribute):
        parts.append(e.attr)
        e = e.value
    if isinstance(e, ast.Name):
        parts.append(e.id)
        return ".".join(reversed(parts))
    return None


def fold_int(e: ast.AST, env: Optional[dict] = None):
    """Constant-fold an integer/float expression under an environment of known python values. None if unknown."""
    env = env or {}
    if isinstance(e, ast.Constant) and isinstance(e.value, (int, float)) and not isinstance(e.value, bool):
        return e.value
    if isinstance(e, ast.Name):
        v = env.get(e.id)
        return v if isinstance(v, (int, float)) and not isinstance(v, bool) else None
    ch = attr_chain(e)
    if ch is not None and ch in env:
        return env[ch]
    if isinstance(e, ast.UnaryOp) and isinstance(e.op, ast.USub):
        v = fold_int(e.operand, env)
        return None if v is None else -v
    if isinstance(e, ast.BinOp):
        a, b = fold_int(e.left, env), fold_int(e.right, env)
        if a is None or b is None:
            return None
        try:
            if isinstance(e.op, ast.Add):
                return a + b
            if isinstance(e.op, ast.Sub):
                return a - b
            if isinstance(e.op, ast.Mult):
                return a * b
            if isinstance(e.op, ast.FloorDiv):
                return a // b
            if isinstance(e.op, ast.Mod):
                return a % b
            if isinstance(e.op, ast.Pow):
                return a ** b if abs(b) < 64 else None
            if isinstance(e.op, ast.Div):
                return a / b
            if isinstance(e.op, ast.LShift):
                return a << b
            if isinstance(e.op, ast.RShift):
                return a >> b
        except (ZeroDivisionError, TypeError, ValueError):
            return None
    if isinstance(e, ast.Call) and isinstance(e.func, ast.Name) and e.func.id == "int" and len(e.args) == 1 and not e.keywords:
        return fold_int(e.args[0], env)
    if isinstance(e, ast.Call) and isinstance(e.func, ast.Name) and e.func.id in ("min", "max") and not e.keywords:
        vals = [fold_int(a, env) for a in e.args]
        if all(v is not None for v in vals) and vals:
            return (min if e.func.id == "min" else max)(vals)
    return None
