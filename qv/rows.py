"""E5 row mode: dim 0 is explicit for a given row count R (a parameter of the domain), trailing dims and contents stay
abstract.  A tensor is a list of cells, one per index of dim 0; a cell is a set of bit fields (offset, width, source row).
Integer arithmetic (loop bounds, shifts, masks) is evaluated concretely, tensors never are.
"""
from __future__ import annotations

import ast
import copy
from typing import Dict, List, Optional, Tuple

from .core import U


class RowError(Exception):
    """a witness: overlapping lanes, a dropped row, a field cut by a mask ..."""


class RowUnknown(Exception):
    pass


class RT:
    """row tensor"""

    def __init__(self, cells: List[frozenset], dtype="uint8", rest="rest"):
        self.cells = list(cells)
        self.dtype = dtype
        self.rest = rest  # symbolic trailing shape tag

    @staticmethod
    def source(R: int, bits: int):
        return RT([frozenset({(0, bits, r)}) for r in range(R)])

    @staticmethod
    def zeros(n: int):
        return RT([frozenset() for _ in range(n)])

    def shift(self, s: int):
        out = []
        for c in self.cells:
            nc = set()
            for o, w, r in c:
                if o + s + w <= 0:
                    continue  # the whole field is shifted out
                if o + s < 0:
                    raise RowError(f"right shift by {-s} cuts through the field at bits [{o},{o + w})")
                if o + s + w > 8 and self.dtype == "uint8":
                    raise RowError(f"left shift by {s} pushes a {w}-bit field at offset {o} out of the byte")
                nc.add((o + s, w, r))
            out.append(frozenset(nc))
        return RT(out, self.dtype, self.rest)

    def mask(self, m: int):
        if m == 0:
            return RT([frozenset() for _ in self.cells], self.dtype, self.rest)
        lo = (m & -m).bit_length() - 1
        width = m.bit_length() - lo
        if m != ((1 << width) - 1) << lo:
            raise RowError(f"mask {m:#x} is not contiguous")
        out = []
        for c in self.cells:
            nc = set()
            for o, w, r in c:
                if o >= lo and o + w <= lo + width:
                    nc.add((o, w, r))
                elif o + w <= lo or o >= lo + width:
                    continue
                else:
                    raise RowError(f"mask {m:#x} cuts through the field at bits [{o},{o + w})")
            out.append(frozenset(nc))
        return RT(out, self.dtype, self.rest)

    def __or__(self, other: "RT"):
        if len(self.cells) != len(other.cells):
            raise RowError(f"OR of tensors with {len(self.cells)} and {len(other.cells)} rows")
        out = []
        for i, (a, b) in enumerate(zip(self.cells, other.cells)):
            for o1, w1, r1 in a:
                for o2, w2, r2 in b:
                    if o1 < o2 + w2 and o2 < o1 + w1:
                        raise RowError(f"lanes overlap in packed row {i}: bits [{o1},{o1 + w1}) (row {r1}) and [{o2},{o2 + w2}) (row {r2})")
            out.append(a | b)
        return RT(out, self.dtype, self.rest)

    def slice(self, lo, hi):
        return RT(self.cells[lo:hi], self.dtype, self.rest)

    def key(self):
        return tuple(tuple(sorted(c)) for c in self.cells)


class _Ret(Exception):
    def __init__(self, v):
        self.v = v


class RowInterp:
    """Interprets one function on row tensors.  `device_is_mps` selects the branch of `t.device.type == "mps"` tests."""

    def __init__(self, fn: ast.FunctionDef, args: dict, mps: bool = False, helpers: Optional[dict] = None):
        from .core import canon_function
        fn = canon_function(fn)
        self.fn, self.args, self.mps, self.helpers = fn, args, mps, helpers or {}
        self.alloc = None

    def run(self):
        env = dict(self.args)
        try:
            self.block(self.fn.body, env)
        except _Ret as r:
            return r.v
        return None

    def block(self, stmts, env):
        for st in stmts:
            self.stmt(st, env)

    def stmt(self, st, env):
        if isinstance(st, ast.Expr):
            if isinstance(st.value, ast.Constant):
                return
            self.ev(st.value, env)
            return
        if isinstance(st, ast.Assign):
            v = self.ev(st.value, env)
            for t in st.targets:
                self.bind(t, v, env)
            return
        if isinstance(st, ast.AugAssign):
            if isinstance(st.target, ast.Subscript) and isinstance(st.op, ast.BitOr):
                base = self.ev(st.target.value, env)
                lo, hi = self.slice_bounds(st.target.slice, env, len(base.cells))
                rhs = self.ev(st.value, env)
                if not isinstance(rhs, RT):
                    raise RowUnknown("|= with a non-tensor")
                if hi - lo != len(rhs.cells):
                    raise RowError(f"`{U(st)[:60]}` writes {len(rhs.cells)} rows into a slice of {hi - lo}")
                merged = base.slice(lo, hi) | rhs
                base.cells[lo:hi] = merged.cells
                return
            if isinstance(st.target, ast.Name):
                cur = env[st.target.id]
                v = self.binop(st.op, cur, self.ev(st.value, env))
                env[st.target.id] = v
                return
            raise RowUnknown(f"augmented assignment {U(st)[:50]}")
        if isinstance(st, ast.If):
            c = self.ev(st.test, env)
            if not isinstance(c, bool):
                raise RowUnknown(f"condition {U(st.test)[:50]}")
            self.block(st.body if c else st.orelse, env)
            return
        if isinstance(st, ast.For):
            it = self.ev(st.iter, env)
            if not isinstance(it, (list, tuple, range)):
                raise RowUnknown("loop over a non-constant range")
            for x in it:
                self.bind(st.target, x, env)
                self.block(st.body, env)
            return
        if isinstance(st, ast.FunctionDef):
            env[st.name] = st
            return
        if isinstance(st, ast.Return):
            raise _Ret(self.ev(st.value, env) if st.value is not None else None)
        if isinstance(st, ast.Assert):
            return
        if isinstance(st, ast.Pass):
            return
        raise RowUnknown(f"statement {type(st).__name__}")

    def bind(self, t, v, env):
        if isinstance(t, ast.Name):
            env[t.id] = v
        elif isinstance(t, (ast.Tuple, ast.List)):
            for a, b in zip(t.elts, v):
                self.bind(a, b, env)
        else:
            raise RowUnknown("assignment target")

    def slice_bounds(self, s, env, n):
        if isinstance(s, ast.Slice):
            lo = self.ev(s.lower, env) if s.lower else 0
            hi = self.ev(s.upper, env) if s.upper else n
            if s.step is not None:
                raise RowUnknown("strided slice")
            if not (isinstance(lo, int) and isinstance(hi, int)):
                raise RowUnknown("symbolic slice")
            lo = max(0, lo + n if lo < 0 else lo)
            hi = min(n, hi + n if hi < 0 else hi)
            return lo, max(lo, hi)
        raise RowUnknown("index is not a slice of dim 0")

    def binop(self, op, a, b):
        if isinstance(a, int) and isinstance(b, int):
            table = {ast.Add: lambda: a + b, ast.Sub: lambda: a - b, ast.Mult: lambda: a * b, ast.FloorDiv: lambda: a // b, ast.Mod: lambda: a % b,
                     ast.Pow: lambda: a ** b, ast.LShift: lambda: a << b, ast.RShift: lambda: a >> b, ast.BitAnd: lambda: a & b, ast.BitOr: lambda: a | b}
            if type(op) in table:
                return table[type(op)]()
        if isinstance(a, RT) and isinstance(b, int):
            if isinstance(op, ast.LShift):
                return a.shift(b)
            if isinstance(op, ast.RShift):
                return a.shift(-b)
            if isinstance(op, ast.BitAnd):
                return a.mask(b)
            if isinstance(op, ast.Mult) and b > 0 and b & (b - 1) == 0:
                return a.shift(b.bit_length() - 1)  # t * 2**k == t << k
            if isinstance(op, ast.Mult) and any(a.cells):
                raise RowError(f"multiplication of bit fields by {b} is not a shift: lanes are erased or smeared")
            if isinstance(op, ast.FloorDiv) and b > 0 and b & (b - 1) == 0:
                return a.shift(-(b.bit_length() - 1))  # t // 2**k == t >> k
        if isinstance(a, RT) and isinstance(b, RT) and isinstance(op, ast.BitOr):
            return a | b
        if isinstance(a, tuple) and isinstance(b, tuple) and isinstance(op, ast.Add):
            return a + b
        raise RowUnknown(f"operator {type(op).__name__} on {type(a).__name__}/{type(b).__name__}")

    def ev(self, e, env):
        if isinstance(e, ast.Constant):
            return e.value
        if isinstance(e, ast.Name):
            if e.id in env:
                return env[e.id]
            if e.id == "torch":
                return "torch"
            from .core import module_lookup
            r = module_lookup(self.fn, e.id)
            if isinstance(r, ast.Constant):
                return r.value
            if isinstance(r, ast.FunctionDef):
                return r
            raise RowUnknown(f"name {e.id}")
        if isinstance(e, ast.Tuple):
            out = []
            for x in e.elts:
                if isinstance(x, ast.Starred):
                    out.extend(self.ev(x.value, env))
                else:
                    out.append(self.ev(x, env))
            return tuple(out)
        if isinstance(e, ast.List):
            return [self.ev(x, env) for x in e.elts]
        if isinstance(e, ast.BinOp):
            return self.binop(e.op, self.ev(e.left, env), self.ev(e.right, env))
        if isinstance(e, ast.UnaryOp) and isinstance(e.op, ast.USub):
            return -self.ev(e.operand, env)
        if isinstance(e, ast.Compare) and len(e.ops) == 1:
            a, b = self.ev(e.left, env), self.ev(e.comparators[0], env)
            if a == "device.type" or b == "device.type":
                other = b if a == "device.type" else a
                res = (other == "mps") == self.mps if other == "mps" else False
                return res if isinstance(e.ops[0], ast.Eq) else not res
            if isinstance(a, int) and isinstance(b, int):
                return {ast.Eq: a == b, ast.NotEq: a != b, ast.Lt: a < b, ast.LtE: a <= b, ast.Gt: a > b, ast.GtE: a >= b}[type(e.ops[0])]
            raise RowUnknown(f"comparison {U(e)[:40]}")
        if isinstance(e, ast.Attribute):
            if e.attr == "type" and isinstance(e.value, ast.Attribute) and e.value.attr == "device":
                return "device.type"
            v = self.ev(e.value, env)
            if isinstance(v, RT):
                if e.attr == "shape":
                    return (len(v.cells), v.rest) if v.rest is not None else (len(v.cells),)
                if e.attr == "device":
                    return "device"
                if e.attr == "ndim":
                    return 2 if v.rest is not None else 1
            if v == "torch":
                return f"torch.{e.attr}"
            raise RowUnknown(f"attribute {U(e)[:40]}")
        if isinstance(e, ast.Subscript):
            v = self.ev(e.value, env)
            if isinstance(v, RT):
                lo, hi = self.slice_bounds(e.slice, env, len(v.cells))
                return v.slice(lo, hi)
            if isinstance(v, tuple):
                if isinstance(e.slice, ast.Slice):
                    lo = self.ev(e.slice.lower, env) if e.slice.lower else None
                    hi = self.ev(e.slice.upper, env) if e.slice.upper else None
                    return v[lo:hi]
                return v[self.ev(e.slice, env)]
            raise RowUnknown("subscript")
        if isinstance(e, ast.Call):
            return self.call(e, env)
        if isinstance(e, (ast.ListComp, ast.GeneratorExp)) and len(e.generators) == 1 and isinstance(e.generators[0].target, ast.Name):
            g = e.generators[0]
            it = self.ev(g.iter, env)
            if not isinstance(it, (list, tuple, range)):
                raise RowUnknown("comprehension over a non-constant range")
            out = []
            for x in it:
                env2 = dict(env)
                env2[g.target.id] = x
                if all(self.ev(c, env2) for c in g.ifs):
                    out.append(self.ev(e.elt, env2))
            return out
        if isinstance(e, ast.BoolOp):
            for v in e.values:
                x = self.ev(v, env)
                if not isinstance(x, bool):
                    raise RowUnknown("boolean operation on a non-constant")
                if isinstance(e.op, ast.And) and not x:
                    return False
                if isinstance(e.op, ast.Or) and x:
                    return True
            return isinstance(e.op, ast.And)
        if isinstance(e, ast.UnaryOp) and isinstance(e.op, ast.Not):
            x = self.ev(e.operand, env)
            if not isinstance(x, bool):
                raise RowUnknown("negation of a non-constant")
            return not x
        if isinstance(e, ast.IfExp):
            c = self.ev(e.test, env)
            if not isinstance(c, bool):
                raise RowUnknown("conditional expression on a non-constant")
            return self.ev(e.body if c else e.orelse, env)
        raise RowUnknown(f"expression {type(e).__name__}")

    def call(self, e, env):
        f = e.func
        if isinstance(f, ast.Name):
            args = [self.ev(a, env) for a in e.args]
            if f.id == "range":
                return list(range(*args))
            if f.id == "reversed":
                return list(reversed(args[0]))
            if f.id == "list":
                return list(args[0])
            if f.id == "min":
                return min(args)
            if f.id == "max":
                return max(args)
            if f.id == "len":
                a = args[0]
                return len(a)
            fn = env.get(f.id) or self.helpers.get(f.id)
            if fn is None:
                from .core import module_lookup
                fn = module_lookup(self.fn, f.id)
            if f.id in ("int", "bool") and len(args) == 1:
                return args[0]
            if f.id in ("tuple", "list") and len(args) == 1:
                return tuple(args[0]) if f.id == "tuple" else list(args[0])
            if isinstance(fn, ast.FunctionDef):
                names = [a.arg for a in fn.args.args]
                henv = dict(zip(names, args))
                for k in e.keywords:
                    if k.arg is not None:
                        henv[k.arg] = self.ev(k.value, env)
                for a, d in zip(reversed(fn.args.args), reversed(fn.args.defaults)):
                    if a.arg not in henv:
                        henv[a.arg] = self.ev(d, {})
                sub = RowInterp(fn, henv, self.mps, {**self.helpers, **{k: v for k, v in env.items() if isinstance(v, ast.FunctionDef)}})
                return sub.run()
            raise RowUnknown(f"call {f.id}")
        if isinstance(f, ast.Attribute):
            ft = U(f)
            kw = {k.arg: self.ev(k.value, env) for k in e.keywords}
            if ft == "torch.zeros":
                shape = self.ev(e.args[0], env)
                n = shape[0] if isinstance(shape, tuple) else shape
                if not isinstance(n, int):
                    raise RowUnknown("zeros with a symbolic row count")
                t = RT.zeros(n)
                t.rest = (shape[1] if len(shape) > 1 else None) if isinstance(shape, tuple) else None
                t.alloc_shape = shape
                t.dtype = "uint8" if kw.get("dtype") == "torch.uint8" else str(kw.get("dtype"))
                self.alloc = t
                return t
            if ft == "torch.cat":
                parts = self.ev(e.args[0], env)
                axis = kw.get("dim", kw.get("axis", self.ev(e.args[1], env) if len(e.args) > 1 else 0))
                if axis != 0 or not all(isinstance(p, RT) for p in parts):
                    raise RowUnknown("cat along another dim")
                cells = []
                for p in parts:
                    cells.extend(p.cells)
                return RT(cells)
            recv = self.ev(f.value, env)
            if isinstance(recv, RT):
                if f.attr in ("to", "contiguous", "clone"):
                    return recv
            if isinstance(recv, list) and f.attr == "append":
                recv.append(self.ev(e.args[0], env))
                return None
            raise RowUnknown(f"call {ft[:40]}")
        raise RowUnknown("call")
