"""Rules over the registered aten handlers of QBytesTensor, shared by C05 (value semantics) and C06 (metadata)."""
from __future__ import annotations

import ast
import copy
from typing import List, Optional

from . import hand, kinds
from .core import AnalysisError, N, Repo, U, atoms, is_opaque, paths_of, positional_params, show, site, subst
from .hand import (COMPARE_OPS, CONTRACT_OPS, COPY_OPS, EWHOM_OPS, JOIN_OPS, KNOWN_OPS, MOVE_OPS, NO_FLOAT8, NONHOM_OPS, PERMUTE_OPS,
                   PREDICATE_OPS, PRESERVE_OPS, REQUANT_OPS, SCALE_OPS, HPath, ctor_fields, handler_paths, is_ctor)
from .registries import Handler, handlers

QB = "QBytesTensor"
RANGE_OPEN_OPS = {"aten.neg", "aten.abs"}  # the image of the int8 range [-128, 127] leaves the range


class Rec:
    """A rule outcome: verdict in ok|bad|unknown."""

    def __init__(self, pid, rule, verdict, site_, function, tag, detail, witness=""):
        self.pid, self.rule, self.verdict, self.site, self.function, self.tag, self.detail, self.witness = pid, rule, verdict, site_, function, tag, detail, witness


def emit(chk, recs: List[Rec], pid: str):
    for r in recs:
        if r.pid != pid:
            continue
        if r.verdict == "ok":
            chk.ok(r.rule, r.site, r.detail)
        elif r.verdict == "bad":
            chk.bad(r.rule, r.site, r.function, r.tag, r.detail, r.witness)
        else:
            chk.unknown(r.rule, r.site, r.detail)


def T(s: str):
    """normalised term of a small python expression"""
    return N(ast.parse(s, mode="eval").body)


def tensor_params(h: Handler) -> List[str]:
    roles = kinds.SCHEMA.get(h.ops[0])
    ps = positional_params(h.fn)[1:]
    out = []
    for i, p in enumerate(ps):
        r = roles[i] if roles and i < len(roles) else "a"
        if r != "a":
            out.append(p)
    return out


def quantized_sources(e: ast.AST, names) -> List[str]:
    """handler operands (or elements of a list operand) whose raw ._data appears in the expression"""
    out = []
    for n in ast.walk(e):
        if isinstance(n, ast.Attribute) and n.attr == "_data":
            out.append(U(n.value))
    return out


def strip_identity_reshape(e: ast.AST, x: str):
    """X.reshape(<x>._data.shape) applied to a value cloned from <x>._data is the identity on geometry."""
    if isinstance(e, ast.Call) and isinstance(e.func, ast.Attribute) and e.func.attr in ("reshape", "view") and len(e.args) == 1 and U(e.args[0]) in (f"{x}._data.shape", f"{x}._data.size()"):
        return e.func.value
    return e


def is_op_call(e) -> bool:
    return isinstance(e, ast.Call) and isinstance(e.func, ast.Name) and e.func.id == "op"


def elem_of(e) -> Optional[ast.AST]:
    if is_opaque(e, "elem"):
        return e.args[0]
    return None


def float_guard_ok(hp: HPath, operands: List[str]) -> bool:
    """Every operand whose raw payload is used is known not to hold float8 on this path."""
    ok_set = set()
    for x in operands:
        if hp.fact(f"{x}.qtype.is_floating_point") is False or hp.fact(f"{x}.qtype == qint8") is True or hp.fact(f"qint8 == {x}.qtype") is True:
            ok_set.add(x)
    # equal qtypes propagate the fact
    for a in operands:
        for b in operands:
            if a in ok_set and (hp.fact(f"{a}.qtype == {b}.qtype") is True or hp.fact(f"{b}.qtype == {a}.qtype") is True):
                ok_set.add(b)
    return all(x in ok_set for x in operands)


def scalar_axis_fact(hp: HPath, x: str) -> bool:
    return hp.fact(f"{x}.axis is None") is True


def identity_guard(hp: HPath, x: str, ops) -> bool:
    """aten.t on a tensor of rank < 2 is the identity (and a tensor of rank < 2 is never per-axis)."""
    if set(ops) <= {"aten.t"}:
        for g in (f"{x}.ndim < 2", f"{x}.dim() < 2", f"{x}.ndim <= 1", f"{x}.dim() <= 1", f"len({x}.shape) < 2"):
            if hp.fact(g) is True:
                return True
        for g in (f"{x}.ndim >= 2", f"{x}.ndim > 1", f"{x}.ndim == 2"):
            if hp.fact(g) is False:
                return True
    return False


SIGN_DEPENDANTS = set()


def analyse(repo: Repo, tier: str = "quick") -> List[Rec]:
    recs: List[Rec] = []
    hs = handlers(repo)
    # ops whose raw-payload implementation is only valid for positive scales (not odd): relu/abs, comparisons
    SIGN_DEPENDANTS.clear()
    for h in hs["qbytes"]:
        for o in h.ops:
            if o in (EWHOM_OPS - {"aten.neg"}) | COMPARE_OPS:
                if any(isinstance(n, ast.Attribute) and n.attr == "_data" for n in ast.walk(h.fn)):
                    # a handler that tests the sign of the scales itself before it touches the codes (`(x._scale > 0).all()`) depends on nothing
                    own_guard = any(isinstance(n, ast.Compare) and len(n.ops) == 1 and isinstance(n.ops[0], ast.Gt) and U(n.left).endswith("._scale") and U(n.comparators[0]) in ("0", "0.0")
                                    for n in ast.walk(h.fn))
                    if not own_guard:
                        SIGN_DEPENDANTS.add(o)

    def R(pid, rule, verdict, h: Handler, node_line, tag, detail, witness=""):
        recs.append(Rec(pid, rule, verdict, f"{h.mi.rel}:{node_line}", h.name, tag, detail, witness))

    for h in hs["qbytes"]:
        unknown_ops = [o for o in h.ops if o not in KNOWN_OPS or o not in kinds.SCHEMA]
        if unknown_ops:
            R("C05", "C05.R1", "unknown", h, h.fn.lineno, "", f"handler {h.name} registered for unclassified op(s) {unknown_ops}")
            continue
        tparams = tensor_params(h)
        hps = handler_paths(h)
        ops = set(h.ops)
        for hp in hps:
            p = hp.p
            kind, expr, line = p.end
            # ---- refusals (C05.R7) and asserts
            if kind == "raise":
                allowed = ops <= {"aten.where"} and any(hp.fact(f"isinstance({c}, QTensor)") is True for c in tparams[:1])
                exc = U(expr) if expr is not None else ""
                if allowed:
                    R("C05", "C05.R7", "ok", h, line, "", f"documented refusal: {exc} under quantized condition")
                else:
                    conds = " and ".join(p.cond_texts()) or "always"
                    R("C05", "C05.R7", "bad", h, line, f"raise {exc.split('(')[0]} when {_norm_conds(p)}", f"handler raises {exc} when {conds}: not a documented refusal",
                      "any valid float program reaching this path")
                continue
            for ef in p.effects:
                if ef[0] == "assert":
                    # the dispatch of a tensor class hands a handler with ONE tensor operand an instance of that class: asserting it is a no-op
                    unary_self = len(tparams) == 1 and U(ef[1]) in (f"isinstance({tparams[0]}, {QB})", f"isinstance({tparams[0]}, QTensor)", f"isinstance({tparams[0]}, ({QB},))")
                    # established on this path: a fact of the path conditions, or the value was just built by the symmetric quantizer
                    # (a passing assert becomes a fact of the path itself: only conditions met on OTHER lines count)
                    prior = {a_: t_ for c_, tr_, ln_ in p.conds if ln_ != ef[2] for a_, t_ in atoms(c_, tr_)}
                    by_fact = prior.get(U(ef[1])) is True
                    built = isinstance(ef[1], ast.Call) and U(ef[1].func) == "isinstance" and len(ef[1].args) == 2 and U(ef[1].args[1]) in (QB, "QTensor") \
                        and isinstance(ef[1].args[0], ast.Call) and U(ef[1].args[0].func) in ("SymmetricQuantizer.apply", "quantize_activation", QB)
                    if _tautology(ef[1]) or unary_self or by_fact or built:
                        R("C05", "C05.R7", "ok", h, ef[2], "", f"assert `{U(ef[1])[:70]}` holds by construction on this path")
                        continue
                    txt = U(ef[1])
                    R("C05", "C05.R7", "bad", h, ef[2], f"assert {txt}", f"handler asserts `{txt}`: an operand combination for which the float program is valid is refused with AssertionError",
                      "operands for which the asserted relation does not hold (e.g. copy_ between two quantized tensors of different qtypes)")
            # ---- rank beliefs (C05.R11)
            for ef in p.effects:
                if ef[0] == "unpack":
                    src = U(ef[1])
                    for x in tparams:
                        if src in (f"{x}.size()", f"{x}.shape", f"{x}._data.shape", f"{x}._data.size()"):
                            ranks = _possible_ranks(h, hp, x)
                            if ranks is not None and ranks <= {ef[2]}:
                                R("C05", "C05.R11", "ok", h, ef[3], "", f"{src} unpacked into {ef[2]} names; rank implied by schema/guards {sorted(ranks)}")
                            else:
                                R("C05", "C05.R11", "bad", h, ef[3], f"unpack {src} into {ef[2]}", f"{src} is unpacked into {ef[2]} names but the op admits ranks {sorted(ranks) if ranks else 'any'}",
                                  f"an operand of rank != {ef[2]} (ValueError: not enough values to unpack)")
            if kind == "fall":
                R("C05", "C05.R4", "unknown", h, line, "", "handler path falls off the end (returns None)")
                continue
            _classify_return(repo, recs, R, h, hp, expr, line, tparams, ops)
        # ---- operand-kind typestate (C05.R2)
        helpers = {}
        for name, node in h.mi.defs.items():
            if isinstance(node, ast.FunctionDef) and not node.decorator_list and name not in ("is_scalar", "qfallback") and not name.startswith("register_") and not name.startswith("get_"):
                helpers[name] = node
        try:
            f, n_asg, n_paths = kinds.analyse(h.fn, h.ops, max_list=3 if tier == "quick" else 4, helpers=helpers)
        except AnalysisError as e:
            R("C05", "C05.R2", "unknown", h, h.fn.lineno, "", str(e))
            continue
        if not f:
            R("C05", "C05.R2", "ok", h, h.fn.lineno, "", f"{n_asg} operand-kind assignments, {n_paths} paths: no quantized-only attribute on a plain operand, no raw packed payload, no re-dispatch cycle")
        for key, info in f.items():
            if key[0] == "attr":
                R("C05", "C05.R2", "bad", h, info["line"], f"param={key[1]} attr={key[2]}", f"`{key[1]}.{key[2]}` is read on a path where `{key[1]}` may be a plain tensor or scalar ({len(info['kinds'])} kind assignments, e.g. {info['kinds'][0]})",
                  f"{key[1]} is a plain torch.Tensor / python number while another operand is quantized (AttributeError)")
            elif key[0] == "deq":
                R("C05", "C05.R2", "bad", h, info["line"], f"param={key[1]} dequantize-on-scalar", f"`{key[1]}.dequantize()` is called where `{key[1]}` may be a python number", f"{key[1]} is a python scalar")
            elif key[0] == "rawqx":
                R("C05", "C05.R2", "bad", h, info["line"], f"param={key[1]} raw-packed-payload", f"`{key[1]}._data` reaches a compute call where `{key[1]}` may be a packed low-bit tensor (its payload is not its value)", f"{key[1]} is a QBitsTensor")
            elif key[0] == "cycle":
                R("C05", "C05.R2", "bad", h, info["line"], f"redispatch-cycle kinds={'/'.join(key[1])}", f"direct op(...) call re-enters this handler with the same operand kinds {key[1]} -> {info['to']}: unbounded recursion", f"operand kinds {key[1]} (RecursionError)")
    recs.extend(_dispatch_rules(repo, hs))
    recs.extend(_helper_predicates(repo, hs))
    return recs


SCALAR_FORMS = ("len({t}.shape) == 0", "{t}.ndim == 0", "{t}.dim() == 0", "{t}.shape == ()", "{t}.shape == torch.Size([])", "len({t}.size()) == 0")


def _helper_predicates(repo: Repo, hs) -> List[Rec]:
    """The guard helpers the rules above trust by name must mean what the rules assume (C05.R13)."""
    recs = []
    mods = {h.mi.name: h.mi for h in hs["qbytes"]}
    for mi in mods.values():
        fn = mi.defs.get("is_scalar")
        if not isinstance(fn, ast.FunctionDef):
            recs.append(Rec("C05", "C05.R13", "unknown", f"{mi.rel}:1", "is_scalar", "", "is_scalar helper not found"))
            continue
        t = positional_params(fn)[0]
        ps = [p for p in paths_of(fn) if p.end[0] == "return"]
        ok = False
        txt = ""
        if len(ps) == 1:
            e = ps[0].end[1]
            txt = U(e)
            # Number or (plain tensor and 0-dim)
            if isinstance(e, ast.BoolOp) and isinstance(e.op, ast.Or) and len(e.values) == 2:
                a, b = e.values
                num = U(a) in (f"isinstance({t}, numbers.Number)", f"isinstance({t}, (int, float))", f"isinstance({t}, Number)")
                if isinstance(b, ast.BoolOp) and isinstance(b.op, ast.And) and len(b.values) == 2:
                    plain = U(b.values[0]) in (f"type({t}) == torch.Tensor", f"type({t}) is torch.Tensor")
                    zero = U(b.values[1]) in [f.format(t=t) for f in SCALAR_FORMS]
                    ok = num and plain and zero
        for pid, rule in (("C05", "C05.R13"), ("C06", "C06.R8")):
            recs.append(Rec(pid, rule, "ok" if ok else "bad", f"{mi.rel}:{fn.lineno}", "is_scalar", "is_scalar definition",
                            f"is_scalar(t) is `{txt[:100]}`: a python number or a plain 0-dim tensor (the scale-only handlers keep the operand's geometry, which is only right when the other operand does not broadcast): {ok}",
                            "q * torch.tensor([[0.5]]) (one element, rank 2): the result keeps q's shape instead of the broadcast shape, and a per-tensor tensor gets a non-scalar scale"))
        cm = mi.defs.get("cannot_mm")
        if isinstance(cm, ast.FunctionDef):
            t = positional_params(cm)[0]
            ps = [p for p in paths_of(cm) if p.end[0] == "return"]
            txt = U(ps[0].end[1]) if len(ps) == 1 else ""
            ok = txt in (f"{t}.axis is not None and {t}.size() != {t}._data.size()", f"{t}.axis is not None and {t}._data.size() != {t}.size()")
            recs.append(Rec("C05", "C05.R13", "ok" if ok else "bad", f"{mi.rel}:{cm.lineno}", "cannot_mm", "cannot_mm definition",
                            f"cannot_mm(t) is `{txt[:90]}`: true exactly for grouped (reshaped) payloads: {ok}", "a grouped low-bit operand reaches the raw-code matmul"))
    return recs


def _tautology(test: ast.AST) -> bool:
    """`A == Quantizer.apply(x, A, ...).qtype`: the value was just built with that qtype."""
    if isinstance(test, ast.Compare) and len(test.ops) == 1 and isinstance(test.ops[0], ast.Eq):
        for a, b in ((test.left, test.comparators[0]), (test.comparators[0], test.left)):
            if isinstance(b, ast.Attribute) and b.attr == "qtype" and isinstance(b.value, ast.Call) and U(b.value.func).endswith("Quantizer.apply") and len(b.value.args) >= 2 and U(b.value.args[1]) == U(a):
                return True
    return False


def _norm_conds(p) -> str:
    return " & ".join(("" if t else "!") + U(c) for c, t, _ in p.conds)


SCHEMA_RANKS = {"aten.mm": {2}, "aten.bmm": {3}, "aten.t": {0, 1, 2}}


def _possible_ranks(h: Handler, hp: HPath, x: str):
    ranks = None
    for o in h.ops:
        r = SCHEMA_RANKS.get(o)
        if r is None:
            ranks = None
            break
        ranks = set(r) if ranks is None else (ranks | r)
    univ = ranks if ranks is not None else set(range(0, 9))
    constrained = ranks is not None
    for text, truth in hp.facts.items():
        for attr in (f"{x}.ndim", f"{x}.dim()", f"len({x}.shape)", f"len({x}.size())"):
            if text.startswith(attr + " "):
                try:
                    _, opx, val = text.split(" ", 2) if attr.count(" ") == 0 else (None, *text[len(attr) + 1:].split(" ", 1))
                    val = int(val)
                except ValueError:
                    continue
                def keep(r):
                    res = {"<": r < val, "<=": r <= val, ">": r > val, ">=": r >= val, "==": r == val, "!=": r != val}.get(opx)
                    return res if truth else (None if res is None else not res)
                flt = {r for r in univ if keep(r)}
                if all(keep(r) is not None for r in univ):
                    univ = flt
                    constrained = True
    return univ if constrained else None


def _classify_return(repo, recs, R, h: Handler, hp: HPath, expr, line, tparams, ops):
    p = hp.p
    if expr is None:
        R("C05", "C05.R4", "unknown", h, line, "", "handler returns None")
        return
    # list comprehension of constructors (split)
    ctor_expr, elem_src = expr, None
    # (a list comprehension, or tuple(...) / list(...) of a comprehension / generator: the sequence type is irrelevant to the packet's callers)
    if isinstance(expr, ast.Call) and isinstance(expr.func, ast.Name) and expr.func.id in ("tuple", "list") and len(expr.args) == 1 and not expr.keywords \
            and isinstance(expr.args[0], (ast.GeneratorExp, ast.ListComp)):
        expr = ast.ListComp(elt=expr.args[0].elt, generators=expr.args[0].generators)
        ctor_expr = expr
    if isinstance(expr, ast.ListComp) and len(expr.generators) == 1 and isinstance(expr.generators[0].target, ast.Name) and not expr.generators[0].ifs:
        g = expr.generators[0]
        elem_src = g.iter
        ctor_expr = subst(expr.elt, {g.target.id: ast.Call(func=ast.Name(id="__elem__", ctx=ast.Load()), args=[g.iter], keywords=[])})
    if is_ctor(ctor_expr):
        f = ctor_fields(repo, QB, ctor_expr)
        if f is None:
            R("C05", "C05.R4", "unknown", h, line, "", f"constructor call not bindable: {U(ctor_expr)[:80]}")
            return
        _check_ctor(repo, R, h, hp, f, line, tparams, ops)
        return
    if isinstance(expr, ast.Call) and isinstance(expr.func, ast.Name) and expr.func.id == "qfallback":
        _check_reissue(R, h, hp, expr, line, fallback=True)
        return
    if is_op_call(expr):
        srcs = quantized_sources(expr, tparams)
        if srcs and not any(isinstance(n, ast.Call) and isinstance(n.func, ast.Attribute) and n.func.attr == "dequantize" for n in ast.walk(expr)):
            _check_raw_return(R, h, hp, expr, line, srcs, ops, tparams)
            return
        if ops <= COPY_OPS | PREDICATE_OPS and not srcs and not any(isinstance(n, ast.Call) and isinstance(n.func, ast.Attribute) and n.func.attr == "dequantize" for n in ast.walk(expr)):
            _check_predicate(R, h, hp, expr, line, tparams)
            return
        _check_reissue(R, h, hp, expr, line, fallback=False)
        return
    if isinstance(expr, ast.Call) and isinstance(expr.func, ast.Name) and expr.func.id == "quantize_activation":
        _check_requant(repo, R, h, hp, expr, line, tparams, ops)
        return
    if isinstance(expr, ast.Name) and expr.id in tparams and ops <= COPY_OPS:
        _check_copy(R, h, hp, expr, line, tparams)
        return
    if ops <= CONTRACT_OPS:
        # contraction results are typed by C07; here only the float8 guard on raw payloads
        srcs = quantized_sources(expr, tparams)
        if srcs:
            ok = float_guard_ok(hp, sorted(set(srcs)))
            R("C05", "C05.R6", "ok" if ok else "bad", h, line, f"raw payload of {sorted(set(srcs))} without float8 guard",
              f"contraction on raw payloads of {sorted(set(srcs))} {'is' if ok else 'is NOT'} guarded against float8 storage", "float8 operands (no float8 matmul kernel on CPU)")
        return
    if ops <= REQUANT_OPS:
        # a float result (per-axis where): must be computed from dequantized values
        if any(isinstance(n, ast.Attribute) and n.attr == "_data" for n in ast.walk(expr)):
            R("C05", "C05.R10", "bad", h, line, "float result from raw payload", f"float result `{U(expr)[:80]}` is computed from a raw payload", "any input whose scale is not 1")
        else:
            _check_reissue(R, h, hp, expr, line, fallback=False) if (is_op_call(expr)) else R("C05", "C05.R10", "ok", h, line, "", f"float result `{U(expr)[:60]}` computed from dequantized values")
        return
    R("C05", "C05.R4", "unknown", h, line, "", f"return construct not recognised: {U(expr)[:100]}")


def _check_reissue(R, h: Handler, hp: HPath, call: ast.Call, line, fallback: bool):
    """C05.R3: a fallback / float re-issue passes `op` and the handler's own operands in the aten order."""
    fn = h.fn
    args = list(call.args)
    if fallback:
        if not args or not (isinstance(args[0], ast.Name) and args[0].id == "op"):
            R("C05", "C05.R3", "bad", h, line, "qfallback-without-op", f"`{U(call)}` does not pass the aten op as the callable", "any input that takes this path (TypeError: not callable)")
            return
        args = args[1:]
    params = positional_params(fn)[1:]
    want = [("name", x) for x in params]
    if fn.args.vararg is not None:
        want.append(("star", ("name", fn.args.vararg.arg)))
    got = []
    for a in args:
        t = N(a)
        # X.dequantize() stands for X
        if t[0] == "m" and t[1] == "dequantize" and not t[3]:
            t = t[2]
        got.append(t)
    kw_got = {(k.arg or "**"): N(k.value) for k in call.keywords}
    for x in params[len(got):]:
        if x in kw_got:
            got.append(kw_got.pop(x))
    kw_want = {"**": ("name", fn.args.kwarg.arg)} if fn.args.kwarg is not None else {}
    # keyword-only parameters of the handler travel by keyword under their own name; one known to be None on this path may be left out
    for a_ in fn.args.kwonlyargs:
        if kw_got.get(a_.arg) == ("name", a_.arg):
            kw_got.pop(a_.arg)
        elif a_.arg not in kw_got and hp.fact(f"{a_.arg} is None") is not True and hp.fact(f"{a_.arg} is not None") is not False:
            kw_got[a_.arg] = ("missing",)
    # `*args` known to be empty on this path (`len(args) > 0` is false) need not be forwarded
    if fn.args.vararg is not None and ("star", ("name", fn.args.vararg.arg)) not in got:
        va = fn.args.vararg.arg
        if any(hp.fact(t_) is False for t_ in (f"len({va}) > 0", f"len({va}) != 0", va, f"len({va}) >= 1")) or hp.fact(f"len({va}) == 0") is True or hp.fact(f"not {va}") is True:
            want = [w for w in want if w != ("star", ("name", va))]
    # a parameter rebound to its own dequantized / requantized form keeps its place (e.g. src = Quantizer.apply(src, ...))
    ok = len(got) == len(want) and kw_got == kw_want
    if ok:
        for g, w in zip(got, want):
            if g != w:
                ok = False
    what = "qfallback" if fallback else "float re-issue"
    if ok:
        R("C05", "C05.R3", "ok", h, line, "", f"{what} `{U(call)[:70]}` passes the handler's operands {[show(w) for w in want]} in order")
    else:
        R("C05", "C05.R3", "bad", h, line, f"{what} operands {[show(g) for g in got]}", f"{what} `{U(call)[:90]}` does not pass the handler's own operands {[show(w) for w in want]} in the aten order",
          "any input that takes this path: an operand is dropped, duplicated or reordered")


def _check_raw_return(R, h, hp, expr, line, srcs, ops, tparams):
    """op applied to raw payloads, result returned as is (comparisons, predicates)."""
    srcs = sorted(set(srcs))
    if ops <= PREDICATE_OPS:
        _check_predicate(R, h, hp, expr, line, tparams)
        return
    if ops <= COMPARE_OPS:
        ok = len(srcs) == 2 and all(hp.fact(f"isinstance({x}, QBytesTensor)") is True for x in srcs)
        eq = hp.fact(f"torch.equal({srcs[0]}._scale, {srcs[1]}._scale)") is True or hp.fact(f"torch.equal({srcs[1]}._scale, {srcs[0]}._scale)") is True if len(srcs) == 2 else False
        args_ok = [U(a) for a in expr.args] == [f"{x}._data" for x in tparams[:2]]
        R("C05", "C05.R4", "ok" if (ok and eq and args_ok) else "bad", h, line, "compare raw payloads without equal-scale guard",
          f"comparison of raw payloads {srcs}: both quantized={ok}, torch.equal(scales) on path={eq}, operand order kept={args_ok}", "two quantized operands with different scales (codes are not comparable)")
        g = float_guard_ok(hp, srcs)
        R("C05", "C05.R6", "ok" if g else "bad", h, line, f"raw payload of {srcs} without float8 guard", f"comparison on raw payloads of {srcs} {'is' if g else 'is NOT'} guarded against float8 storage", "float8 operands (no float8 comparison kernel: NotImplementedError)")
        return
    R("C05", "C05.R4", "bad", h, line, f"raw payload result for {sorted(ops)}", f"`{U(expr)[:80]}` returns a value computed on raw payloads without applying any scale", "any input whose scale is not 1")


def _check_predicate(R, h, hp, expr, line, tparams):
    """is_same_size: each operand is replaced by its payload iff it is a QBytesTensor (same geometry by C06)."""
    ok = len(expr.args) == 2
    for a, x in zip(expr.args, tparams):
        t = U(a)
        isq = hp.fact(f"isinstance({x}, QBytesTensor)")
        ok = ok and (t in (f"{x}._data if isinstance({x}, QBytesTensor) else {x}", f"{x} if not isinstance({x}, QBytesTensor) else {x}._data")
                     or (t == f"{x}._data" and isq is True) or (t == x and isq is not True))
    R("C05", "C05.R4", "ok" if ok else "bad", h, line, "predicate operands", f"predicate `{U(expr)[:90]}` evaluates the op on each operand or its payload, in order: {ok}", "operands of different geometry")


def _check_ctor(repo, R, h: Handler, hp: HPath, f, line, tparams, ops):
    data, scale = f["data"], f["scale"]
    p = hp.p
    # ---- which operand is the source
    srcs = sorted(set(quantized_sources(data, tparams)))
    dtxt, stxt = U(data), U(scale)

    def c06(rule, ok, tag, detail, witness):
        R("C06", rule, "ok" if ok else "bad", h, line, tag, detail, witness)

    # SCALE-ONLY: data is the payload itself
    for x in tparams:
        if dtxt == f"{x}._data":
            if not ops <= SCALE_OPS:
                R("C05", "C05.R4", "bad", h, line, f"payload reused for {sorted(ops)}", f"payload of `{x}` is reused unchanged for {sorted(ops)} which is not a scalar rescaling", "any input")
                return
            others = [q for q in tparams if q != x]
            o = others[0] if others else None
            sc = N(scale)
            want = []
            if "aten.div" in ops:
                # `rounding_mode=None` is the default of aten.div: true division
                want = [T(f"op({x}._scale, {o})"), T(f"{x}._scale / {o}"), T(f"op({x}._scale, {o}, rounding_mode=None)")]
            elif "aten.mul" in ops:
                want = [T(f"{o} * {x}._scale"), T(f"{x}._scale * {o}"), T(f"op({x}._scale, {o})"), T(f"op({o}, {x}._scale)")]
            ok = sc in want
            guard = hp.fact(f"is_scalar({o})") is True
            R("C05", "C05.R4", "ok" if ok and guard else "bad", h, line, f"scale-only {sorted(ops)} scale term",
              f"scalar rescaling keeps the payload and sets scale = {stxt} (expected {show(want[0]) if want else '?'}); is_scalar({o}) on path={guard}",
              f"{x} {'/' if 'aten.div' in ops else '*'} c for a scalar c" if guard else f"a non-scalar {o}")
            # strictly positive when a dependant COMPARES raw codes (lt): under a null scale every value is zero while the codes still differ
            strict = any(hp.fact(g) is True for g in (f"{o} > 0", f"0 < {o}")) or hp.fact(f"{o} <= 0") is False
            weak = strict or any(hp.fact(g) is True for g in (f"{o} >= 0", f"0 <= {o}")) or hp.fact(f"{o} < 0") is False
            sign = strict if (SIGN_DEPENDANTS & COMPARE_OPS) else weak
            dependants = sorted(SIGN_DEPENDANTS)
            if dependants:
                R("C05", "C05.R12", "ok" if sign else "bad", h, line, f"scale sign after {sorted(ops)[0]} by scalar",
                  f"scale := {stxt} with a scalar `{o}` of {'guarded' if sign else ('non-negative only' if weak else 'unknown')} sign, while {dependants} operate on raw payloads assuming a positive scale",
                  f"{sorted(ops)[0].split('.')[-1]} by a negative scalar followed by {dependants[0].split('.')[-1]} (e.g. relu(q * -1.0))" if not weak else
                  "(qa * 0) < (qb * 0): both products keep their codes under a null scale and `lt` compares the codes (13 True out of 24 where every value is zero)")
            _c06_fields(R, h, hp, f, line, x, ops, reshaping=False)
            return
    # JOIN: data = op([a._data, b._data], dim)
    if ops <= JOIN_OPS:
        items = None
        if is_op_call(data) and data.args and isinstance(data.args[0], (ast.List, ast.Tuple)):
            items = [U(e) for e in data.args[0].elts]
        lst = tparams[0]
        # after tuple unpacking the list items are `inputs[i]`
        names = [f"{lst}[{i}]" for i in range(len(items or []))]
        ok_items = items == [f"{n}._data" for n in names]
        rest_ok = is_op_call(data) and hand.rest_args_match(data, h.fn, None, n_lead=1)
        guards = all(hp.fact(f"isinstance({n}, QBytesTensor)") is True and hp.fact(f"{n}.axis is None") is True for n in names)
        eqs = all(any(hp.fact(t) is True for t in (f"torch.equal({names[0]}._scale, {n}._scale)", f"torch.equal({n}._scale, {names[0]}._scale)")) for n in names[1:])
        eqq = all(any(hp.fact(t) is True for t in (f"{names[0]}.qtype == {n}.qtype", f"{n}.qtype == {names[0]}.qtype")) for n in names[1:])
        lenfact = hp.fact(f"len({lst}) == {len(names)}") is True
        sc_ok = stxt in [f"{n}._scale" for n in names]
        good = bool(items) and ok_items and rest_ok and guards and eqs and eqq and lenfact and sc_ok
        R("C05", "C05.R4", "ok" if good else "bad", h, line, f"join {sorted(ops)} guards",
          f"join of payloads {items}: operands in order={ok_items}, remaining args forwarded={rest_ok}, all QBytes & per-tensor={guards}, torch.equal(scales)={eqs}, equal qtypes={eqq}, len guard={lenfact}, scale from an operand={sc_ok}",
          "operands with different scales / qtypes / a per-axis operand / more operands than are joined")
        # the result takes the dtype of ONE operand's scale: torch.equal compares values across dtypes, so the operands' dtypes have to be compared too
        samedt = all(any(hp.fact(t) is True for t in (f"{names[0]}.dtype == {n}.dtype", f"{n}.dtype == {names[0]}.dtype", f"{names[0]}._scale.dtype == {n}._scale.dtype", f"{n}._scale.dtype == {names[0]}._scale.dtype")) for n in names[1:])
        if good:
            R("C05", "C05.R4", "ok" if samedt else "bad", h, line, f"join {sorted(ops)} ignores the dtype of its other operands",
              f"join of payloads builds its result on the scale of `{names[0]}`: the operands are known to have the same dtype on this path = {samedt}",
              "torch.cat([q16, q32]) / torch.stack([q16, q32]) with equal scales (torch.equal is true across dtypes): a float16 result where the float program promotes to float32, depending on the operand order - (cat([q16, q32]) * 4096 is inf, the float program gives 94208)")
        R("C06", "C06.R8", "ok" if guards else "bad", h, line, f"join {sorted(ops)} keeps a possibly per-axis scale",
          f"join of payloads keeps one operand's scale: it matches the joined payload only when every operand is per-tensor (0-dim scale): {guards}",
          "two per-axis tensors with equal scales joined along their quantization axis (e.g. dim=1 for axis -1): 2N channels wrapped with an N-entry scale")
        if ops & NO_FLOAT8:
            g = float_guard_ok(hp, names)
            R("C05", "C05.R6", "ok" if g else "bad", h, line, f"raw payload of {names} without float8 guard", f"join on raw payloads {'is' if g else 'is NOT'} guarded against float8 storage", "float8 operands (no float8 cat kernel)")
        _c06_fields(R, h, hp, f, line, names[0] if names else lst, ops, reshaping=True)
        return
    if len(srcs) != 1:
        R("C05", "C05.R4", "unknown", h, line, "", f"constructor payload `{dtxt[:80]}` does not derive from exactly one operand payload ({srcs})")
        return
    x = srcs[0]
    core = strip_identity_reshape(data, x)
    el = elem_of(core)
    inner = el if el is not None else core
    # a clamp that removes the lowest integer code (the storage range becomes symmetric) in front of neg / abs
    symmetrised = None
    r17_undecided = False
    if is_op_call(inner) and inner.args and ops & RANGE_OPEN_OPS:
        a0 = inner.args[0]
        cl = None
        if isinstance(a0, ast.Call) and U(a0.func) == "torch.clamp" and a0.args and U(a0.args[0]) == f"{x}._data":
            cl = a0
        elif isinstance(a0, ast.Call) and isinstance(a0.func, ast.Attribute) and a0.func.attr == "clamp" and U(a0.func.value) == f"{x}._data":
            cl = a0
        if cl is not None:
            kws = {k.arg: U(k.value) for k in cl.keywords}
            pos = [U(v) for v in (cl.args[1:] if U(cl.func) == "torch.clamp" else cl.args)]
            lo = kws.get("min", pos[0] if pos else None)
            hi = kws.get("max", pos[1] if len(pos) > 1 else None)
            sym = {"-127", f"-torch.iinfo({x}._data.dtype).max", f"-torch.iinfo({x}.qtype.dtype).max", "-torch.iinfo(torch.int8).max", f"-dtype_info({x}.qtype.dtype).max", f"-dtype_info({x}._data.dtype).max"}
            symmetrised = lo in sym and hi in (None, "127", f"torch.iinfo({x}._data.dtype).max", f"torch.iinfo({x}.qtype.dtype).max", "torch.iinfo(torch.int8).max")
            noop = {None, "-128", f"torch.iinfo({x}._data.dtype).min", f"torch.iinfo({x}.qtype.dtype).min", "torch.iinfo(torch.int8).min", f"dtype_info({x}.qtype.dtype).min", f"dtype_info({x}._data.dtype).min"}
            if symmetrised or lo in noop:
                symmetrised = bool(symmetrised)  # a clamp that keeps the lowest code changes nothing: judged like the bare payload
                inner = copy.deepcopy(inner)
                inner.args[0] = ast.parse(f"{x}._data", mode="eval").body
            else:
                r17_undecided = True
                R("C05", "C05.R17", "unknown", h, line, "", f"clamp `{U(cl)[:70]}` in front of {sorted(ops & RANGE_OPEN_OPS)}: bounds not recognised")
    if not (is_op_call(inner) and inner.args and U(inner.args[0]) == f"{x}._data"):
        if any(isinstance(n, ast.BinOp) for n in ast.walk(data)) and ops <= MOVE_OPS | PRESERVE_OPS | EWHOM_OPS | JOIN_OPS | COPY_OPS:
            R("C06", "C06.R6", "bad", h, line, "payload arithmetic", f"payload term `{dtxt[:70]}` of a move/copy handler contains arithmetic", "any input: codes are altered by a move/copy")
        R("C05", "C05.R4", "bad" if any(isinstance(n, ast.BinOp) for n in ast.walk(data)) else "unknown", h, line, f"payload term for {sorted(ops)}",
          f"payload `{dtxt[:90]}` is not `op({x}._data, ...)`: the payload meets arithmetic or another call", "any input")
        # whatever the op computes, a payload built from several operands may be broadcast to another shape:
        # the wrapper's geometry must be the payload's own (C06 is decidable where C05 is not)
        if is_op_call(inner) and len(inner.args) >= 2:
            _c06_fields(R, h, hp, f, line, x, ops, reshaping=True)
        return
    # forwarded arguments
    if ops <= PRESERVE_OPS:
        fwd_ok = True  # dtype/device keywords are checked by C06.R4
    else:
        fwd_ok = hand.rest_args_match(inner, h.fn, None, n_lead=1)
    if not fwd_ok:
        R("C05", "C05.R3", "bad", h, line, "payload op arguments", f"`{U(inner)[:80]}` does not forward the handler's remaining arguments unchanged", "any call with non-default arguments")
    else:
        R("C05", "C05.R3", "ok", h, line, "", f"`{U(inner)[:60]}` forwards the handler's remaining arguments")
    # ---- scale term
    sc_same = stxt == f"{x}._scale"
    sc_moved = is_op_call(scale) and scale.args and U(scale.args[0]) == f"{x}._scale"
    if sc_same:
        if ops <= EWHOM_OPS:
            R("C05", "C05.R4", "ok", h, line, "", f"elementwise positively-homogeneous op on the payload of `{x}`, scale unchanged")
            if ops & RANGE_OPEN_OPS and not r17_undecided:
                # the integer storage range [-128, 127] is not closed under negation: -(-128) wraps to -128
                R("C05", "C05.R17", "ok" if symmetrised else "bad", h, line, f"lowest code under {sorted(ops & RANGE_OPEN_OPS)[0]}",
                  f"{sorted(ops & RANGE_OPEN_OPS)} applied to the raw integer payload of `{x}` {'after a clamp that removes the lowest code' if symmetrised else 'as it is: the lowest code of the storage type has no counterpart of the opposite sign and wraps'}",
                  "an activation quantized with a calibrated scale that saturates at the low end (code -128): neg() returns -128*scale where the operation on the dequantized value gives +128*scale")
            if ops & NO_FLOAT8:
                g = float_guard_ok(hp, [x])
                R("C05", "C05.R6", "ok" if g else "bad", h, line, f"raw payload of ['{x}'] without float8 guard", f"`{U(inner)[:50]}` on the raw payload {'is' if g else 'is NOT'} guarded against float8 storage", "a float8 operand (no float8 kernel: NotImplementedError)")
        elif ops <= MOVE_OPS | PRESERVE_OPS:
            g = scalar_axis_fact(hp, x) or identity_guard(hp, x, ops)
            R("C06", "C06.R8", "ok" if g else "bad", h, line, f"move {sorted(ops)} keeps a possibly per-axis scale",
              f"geometry-changing {sorted(ops)} keeps the scale of `{x}`: it still broadcasts along the declared axis only if the scale is 0-dim (`{x}.axis is None` on path: {g})",
              "a per-axis quantized operand: the scale shape no longer matches the payload along the declared axis")
            R("C05", "C05.R5", "ok" if g else "bad", h, line, f"move {sorted(ops)} keeps scale without per-tensor guard",
              f"data movement {sorted(ops)} keeps the scale of `{x}` unchanged; `{x}.axis is None` (or identity) established on path: {g}", "a per-axis quantized operand: the scale no longer lines up with the moved payload")
            R("C05", "C05.R4", "ok", h, line, "", f"payload of `{x}` only moved by {sorted(ops)}; scale is the operand's scale")
        elif ops & NONHOM_OPS:
            R("C05", "C05.R4", "bad", h, line, f"non-homogeneous {sorted(ops & NONHOM_OPS)} on raw payload", f"{sorted(ops & NONHOM_OPS)} applied to the raw payload with the scale unchanged: f(s*x) != s*f(x)", "any input whose scale is not 1")
        else:
            R("C05", "C05.R4", "unknown", h, line, "", f"ops {sorted(ops)} with unchanged scale: class not decided")
        ident = identity_guard(hp, x, ops)
        _c06_fields(R, h, hp, f, line, x, ops, reshaping=bool(ops & MOVE_OPS) and not ident, transposed=ops <= {"aten.t"} and not ident, check_axis=True)
        return
    if sc_moved:
        same_args = [U(a) for a in scale.args[1:]] == [U(a) for a in inner.args[1:]]
        if ops <= PRESERVE_OPS:
            R("C05", "C05.R4", "ok", h, line, "", f"geometry-preserving {sorted(ops)} applied to payload and scale of `{x}`")
            _c06_fields(R, h, hp, f, line, x, ops, reshaping=False)
            return
        if ops <= {"aten.t"}:
            ax = U(f["axis"])
            flips = (f"0 if {x}.axis == -1 else -1", f"-1 if {x}.axis == 0 else 0", f"-1 if {x}.axis != -1 else 0", f"0 if {x}.axis != 0 else -1")
            per_axis = hp.fact(f"{x}.axis is None") is False
            last, first = hp.fact(f"{x}.axis == -1"), hp.fact(f"{x}.axis == 0")
            forked = (ax == "0" and (last is True or first is False)) or (ax == "-1" and (last is False or first is True))
            ok = (ax in flips or forked) and per_axis and same_args
            R("C05", "C05.R4", "ok" if ok else "bad", h, line, "transpose co-moves scale and flips axis",
              f"2-D transpose of a per-axis tensor: scale transposed with the payload, axis={ax} (flip expected), per-axis path={per_axis}", "a per-axis quantized matrix (axis 0 <-> -1)")
            _c06_fields(R, h, hp, f, line, x, ops, reshaping=True, transposed=True)
            return
        if ops <= PERMUTE_OPS and same_args and hp.fact(f"{x}.axis is None") is False:
            # a permutation of the dimensions applied with the same arguments to the payload and to a scale of the same rank keeps every code in front of its
            # own scale; what remains is the axis the result declares (first / last after the permutation, dequantized otherwise) - arithmetic on positions
            # this rule does not evaluate: undecided, not wrong
            R("C05", "C05.R4", "unknown", h, line, "", f"{sorted(ops)} co-moves the payload and the scale of the per-axis `{x}` with the same arguments; the axis it then declares (`{U(f['axis'])[:40]}`) is not evaluated by this rule")
            R("C06", "C06.R8", "unknown", h, line, "", f"{sorted(ops)} co-moves the payload and the scale of the per-axis `{x}`; the axis it then declares (`{U(f['axis'])[:40]}`) is not evaluated by this rule")
            return
        R("C05", "C05.R4", "bad", h, line, f"scale moved by {sorted(ops)}", f"scale of `{x}` is passed through {sorted(ops)}: not valid for this op class", "a per-tensor (0-dim) scale")
        c06("C06.R8", False, f"scale moved by {sorted(ops)}", f"the scale of `{x}` is re-laid out by {sorted(ops)} alongside the payload: for an op that is not a 2-D transpose nothing ties the new layout of the scale to the axis the result declares",
            "a per-axis quantized matrix squeezed along a dimension that is not of size one: the codes keep their shape, the scale loses a dimension and no longer lies along the declared axis")
        return
    R("C05", "C05.R4", "bad", h, line, f"scale term for {sorted(ops)}", f"scale `{stxt[:80]}` is neither the operand's scale nor the op applied to it", "any input")
    c06("C06.R8", False, f"scale term for {sorted(ops)}", f"scale `{stxt[:80]}` of a re-wrapped tensor is neither the operand's scale nor the op applied to it: nothing ties it to the axis the result declares", "any per-axis operand")


def _c06_fields(R, h: Handler, hp: HPath, f, line, x, ops, reshaping: bool, transposed: bool = False, check_axis: bool = False):
    """C06.R1/R2: qtype, axis, size, stride of the re-wrapped tensor."""
    data = f["data"]
    dtxt = U(data)
    qt, ax, sz, st = U(f["qtype"]), U(f["axis"]), U(f["size"]), U(f["stride"])
    R("C06", "C06.R2", "ok" if qt in (f"{x}.qtype", f"{x}._qtype") else "bad", h, line, "qtype carried", f"qtype `{qt}` is the source operand's qtype", "any input: the result claims another storage type")
    if not transposed or check_axis:
        ax_ok = ax in (f"{x}.axis", f"{x}._axis") or (ax == "None" and hp.fact(f"{x}.axis is None") is True)
        R("C06", "C06.R2", "ok" if ax_ok else "bad", h, line, "axis carried", f"axis `{ax}` is the source operand's axis (or None under a per-tensor guard)", "a per-axis operand: the declared axis no longer matches the scale")
    if transposed:
        ok = (sz in (f"torch.Size([{x}.size()[1], {x}.size()[0]])", f"{x}.size()[::-1]", f"torch.Size({x}.size()[::-1])", f"torch.Size([{x}.shape[1], {x}.shape[0]])") and st in (f"{x}.stride()[::-1]",)) or (sz == f"{dtxt}.size()" and st == f"{dtxt}.stride()")
        R("C06", "C06.R1", "ok" if ok else "bad", h, line, "transposed size/stride", f"size `{sz}` / stride `{st}` are the reversed geometry of `{x}`", "any non-square matrix")
        return
    if reshaping:
        core = data
        cands = {f"{dtxt}.size()", f"{dtxt}.shape"}
        ok_sz = sz in cands
        ok_st = st == f"{dtxt}.stride()"
        R("C06", "C06.R1", "ok" if ok_sz and ok_st else "bad", h, line, "size/stride from moved payload",
          f"reshaping op: size `{sz[:60]}` and stride `{st[:60]}` are taken from the payload actually passed: size={ok_sz} stride={ok_st}",
          "any input whose geometry is changed by the op (the wrapper reports a stale shape)")
    else:
        ok_sz = sz in (f"{x}.size()", f"{x}.shape")
        # clone: the stride of the cloned payload
        inner = strip_identity_reshape(data, x)
        ok_st = st in (f"{x}.stride()", f"{U(inner)}.stride()")
        R("C06", "C06.R1", "ok" if ok_sz and ok_st else "bad", h, line, "size/stride preserved",
          f"geometry-preserving op: size `{sz[:60]}` / stride `{st[:60]}` are those of `{x}` (or of the cloned payload): size={ok_sz} stride={ok_st}", "any input")
    # payload never meets arithmetic (C06.R6)
    arith = [n for n in ast.walk(data) if isinstance(n, ast.BinOp)]
    R("C06", "C06.R6", "ok" if not arith else "bad", h, line, "payload arithmetic", f"payload term `{dtxt[:70]}` contains no arithmetic", "any input: codes are altered by a move/copy")


def _check_requant(repo, R, h, hp, call, line, tparams, ops):
    """C05.R10: compute on dequantized values, re-quantize with the operand's qtype and the documented scale."""
    from .core import bind_call
    mi, qa = repo.func("quantize_activation")
    f = bind_call(qa, call)
    if f is None:
        R("C05", "C05.R10", "unknown", h, line, "", "quantize_activation call not bindable")
        return
    t, qt, sc = f["t"], U(f["qtype"]), f["scale"]
    x = None
    for c in tparams:
        if qt in (f"{c}.qtype", f"{c}._qtype"):
            x = c
    if x is None:
        R("C05", "C05.R10", "bad", h, line, "requantize qtype", f"re-quantization uses qtype `{qt}` which is not an operand's qtype", "any input of another qtype")
        return
    deq = f"{x}.dequantize()"
    if not (is_op_call(t) and deq in [U(a) for a in t.args]) or any(isinstance(n, ast.Attribute) and n.attr == "_data" for n in ast.walk(t)):
        R("C05", "C05.R10", "bad", h, line, "requantize input", f"value to re-quantize `{U(t)[:80]}` is not `op(..., {deq}, ...)`", "any input whose scale is not 1")
        return
    _check_reissue(R, h, hp, t, line, fallback=False)
    if any(isinstance(c, ast.Call) and isinstance(c.func, ast.Name) and c.func.id not in ("dtype_info",) for c in ast.walk(sc)):
        # a scale obtained from a module-level helper (possibly memoised: quantize_activation stores a copy of it) is the term the helper returns
        from .core import inline
        from .props.c13 import activation_entry_owns_scale
        try:
            sc = inline(repo, h.mi, sc, memo_ok=activation_entry_owns_scale(repo))
        except AnalysisError:
            pass
    stxt = U(sc)
    if "aten._softmax" in ops:
        # softmax output is in [0, 1]: optimal scale is 1 / max storage value of the operand's qtype
        n = N(sc)
        ok = False
        for sub in _subterms(sc):
            if isinstance(sub, ast.BinOp) and isinstance(sub.op, ast.Div) and isinstance(sub.left, ast.Constant) and sub.left.value in (1, 1.0):
                r = U(sub.right)
                if r in (f"dtype_info({x}.qtype.dtype).max", f"torch.finfo({x}.qtype.dtype).max if {x}.qtype.is_floating_point else torch.iinfo({x}.qtype.dtype).max"):
                    ok = True
        dt = f"dtype={x}._scale.dtype" in stxt or f"dtype={x}.dtype" in stxt
        R("C05", "C05.R10", "ok" if ok and dt else "bad", h, line, "softmax output scale", f"softmax re-quantizes with scale `{stxt[:90]}`: 1/StorageRange({x}.qtype.dtype).max={ok}, in the operand dtype={dt}",
          "any input (outputs in [0,1] saturate or waste range)" if not ok else "a float16/bfloat16 operand (dtype changes)")
    else:
        ok = stxt == f"{x}._scale"
        g = scalar_axis_fact(hp, x)
        # the operand's scale only covers the operand's own range: a value computed from ANOTHER operand as well (where(c, q, other)) may lie outside it
        others = [a for a in (t.args if is_op_call(t) else []) if U(a) != deq and any(isinstance(n, ast.Name) and n.id in tparams and n.id != x for n in ast.walk(a))]
        if ok and others:
            R("C05", "C05.R10", "bad", h, line, "requantize scale does not cover the other operand", f"`{U(t)[:60]}` mixes `{x}` with `{U(others[0])[:30]}` and is re-quantized with the scale of `{x}` alone: values of the other operand beyond {x}'s range saturate",
              "torch.where(cond, q, 5.0) with q in [-1, 1]: the selected 5.0 comes back as 1.0 (error of 500 output steps, the property allows one)")
        R("C05", "C05.R10", "ok" if ok and g else "bad", h, line, "requantize scale", f"re-quantization uses scale `{stxt[:60]}` (operand's scale expected) under `{x}.axis is None`={g}",
          "a per-axis operand (activations are per-tensor: ValueError)" if ok else "any input: values re-quantized with an unrelated scale")


def _subterms(e):
    return list(ast.walk(e))


def _check_copy(R, h, hp, expr, line, tparams):
    """copy_: dest payload and scale are overwritten by op(dest.<f>, src.<f>), dest returned."""
    p = hp.p
    dest, src = tparams[0], tparams[1]
    stores = {ef[2]: ef for ef in p.effects if ef[0] == "store" and U(ef[1]) == dest}
    ok = True
    for fld in ("_data", "_scale"):
        ef = stores.get(fld)
        if ef is None:
            ok = False
            continue
        v = ef[3]
        if not (is_op_call(v) and len(v.args) >= 2 and U(v.args[0]) == f"{dest}.{fld}"):
            ok = False
            continue
        s = v.args[1]
        st = U(s)
        if st == f"{src}.{fld}":
            continue
        # src re-quantized with the destination's qtype, axis and scale
        if isinstance(s, ast.Attribute) and s.attr == fld and isinstance(s.value, ast.Call) and U(s.value.func).endswith("Quantizer.apply"):
            from .core import strip_noop_calls as _snc
            a = [U(_snc(z)) if i_ == 0 else U(z) for i_, z in enumerate(s.value.args)]  # `.contiguous()` of the broadcast source is the same values
            # the plain source is broadcast to the destination first (copy_ accepts any source that broadcasts), or handed over as it is
            if a[1:] == [f"{dest}.qtype", f"{dest}.axis", f"{dest}._scale"] and a[0] in (src, f"{src}.expand({dest}.size())", f"{src}.expand({dest}.shape)", f"{src}.expand_as({dest})", f"{src}.broadcast_to({dest}.shape)", f"{src}.broadcast_to({dest}.size())"):
                continue
        ok = False
    extra = [k for k in stores if k not in ("_data", "_scale")]
    R("C05", "C05.R4", "ok" if ok and not extra and U(expr) == dest else "bad", h, line, "copy_ stores",
      f"copy_ overwrites {dest}._data and {dest}._scale with op({dest}.<f>, {src}.<f>) (or the source re-quantized with the destination's parameters) and returns {dest}: {ok and not extra}",
      "any copy: destination keeps stale codes or scale")
    # C06: the destination keeps its declared axis, so its scale must keep its layout: written in place through the op (which refuses
    # a source scale of another shape) - rebinding it to the source's scale accepts any layout under the destination's axis
    ef = stores.get("_scale")
    in_place = ef is not None and is_op_call(ef[3]) and len(ef[3].args) >= 2 and U(ef[3].args[0]) == f"{dest}._scale"
    same_layout = hp.fact(f"{dest}.axis == {src}.axis") is True or hp.fact(f"{src}.axis == {dest}.axis") is True or hp.fact(f"{dest}._scale.shape == {src}._scale.shape") is True
    if ef is not None:
        R("C06", "C06.R8", "ok" if (in_place or same_layout) else "bad", h, line, "copy_ keeps the scale layout of the declared axis",
          f"copy_ writes the destination scale {'in place through the op' if in_place else 'by rebinding it (`' + U(ef[3])[:60] + '`)'}; the destination's axis is unchanged: in place / same layout established = {in_place or same_layout}",
          "per_tensor.copy_(per_axis) or axis0.copy_(axis_last): accepted, the destination then declares an axis its scale does not broadcast along")


def schema_writeback(repo: Repo, name: str):
    """A second shape of write-back fallback, `name(op, *args, **kwargs)` driven by the schema of the overload: the operation is applied to dequantized
    stand-ins, every quantized argument the schema marks as written is then re-quantized from its stand-in and copied into, and the written tensors
    are handed back in place of their stand-ins.  Returns None when `name` is not such a function, else a dict of structural facts:
      schema   - the written arguments come from `<op>._schema` (`alias_info` / `is_write`)
      reissue  - (line, forwards_args, forwards_kwargs, dequantizes) of the call `op(*X, **Y)`
      pairs    - name of the list that records (destination, stand-in) pairs (filled under an isinstance(..., <quantized class>) test), or None
      copies   - [(line, guards)] of `<d>.copy_(...)` calls inside a loop over that list; guards = conditions on the way that are not size / numel tests
      quant    - the AST of the scale argument of the `...Quantizer.apply(...)` call that builds what is copied (through one helper), and the name of the destination there
      returns  - "mapped" (the stand-ins are replaced by their destinations: a closure returning the destination under `value is stand-in`), "raw" (the value of the re-issued op itself), or "other"
    """
    if not name.isidentifier():
        return None
    try:
        mi, fn = repo.func(name)
    except AnalysisError:
        return None
    params = positional_params(fn)
    if not params or fn.args.vararg is None or fn.args.kwarg is None:
        return None
    opn, argsn, kwn = params[0], fn.args.vararg.arg, fn.args.kwarg.arg
    nodes = list(ast.walk(fn))
    if not any(isinstance(x, ast.Attribute) and x.attr == "_schema" and U(x.value) == opn for x in nodes):
        return None
    # the schema analysis may live in a helper of the module that receives the op (`written_arguments(op)`)
    helpers = []
    schema_names = {t.id for st in nodes if isinstance(st, ast.Assign) and U(st.value) == f"{opn}._schema" for t in st.targets if isinstance(t, ast.Name)}
    for x in nodes:
        if isinstance(x, ast.Call) and isinstance(x.func, ast.Name) and any(U(a) in (opn, f"{opn}._schema") or (isinstance(a, ast.Name) and a.id in schema_names) for a in x.args):
            r = repo.resolve(mi, x.func.id)
            if r is not None and isinstance(r[1], ast.FunctionDef) and r[1] is not fn:
                helpers.append(r[1])
    scan = nodes + [y for h_ in helpers for y in ast.walk(h_)]
    facts = {"mi": mi, "fn": fn, "schema": any((isinstance(x, ast.Attribute) and x.attr == "is_write") or (isinstance(x, ast.Constant) and x.value == "is_write") for x in scan) and any(isinstance(x, ast.Attribute) and x.attr == "alias_info" for x in scan)}
    # a memo of that analysis is keyed by the overload: the packet name (`_schema.name` is "aten::max" for max.out, max.dim_max, max.unary_out) is coarser
    facts["coarse_key"] = None
    for h_ in helpers + [fn]:
        hn = list(ast.walk(h_))
        aliases = {t.id for st in hn if isinstance(st, ast.Assign) and isinstance(st.value, ast.Attribute) and st.value.attr == "name" and U(st.value.value).endswith("._schema") for t in st.targets if isinstance(t, ast.Name)}
        for x in hn:
            key = None
            if isinstance(x, ast.Subscript) and isinstance(x.value, ast.Name) and x.value.id.isupper():
                key = x.slice
            elif isinstance(x, ast.Call) and isinstance(x.func, ast.Attribute) and x.func.attr in ("get", "setdefault", "pop") and isinstance(x.func.value, ast.Name) and x.func.value.id.lstrip("_").isupper() and x.args:
                key = x.args[0]
            if key is not None and (U(key).endswith("._schema.name") or (isinstance(key, ast.Name) and key.id in aliases)):
                facts["coarse_key"] = (x.lineno, U(key), h_.name)
    # the re-issued operation
    facts["reissue"] = None
    out_name = None
    for st in nodes:
        c = st.value if isinstance(st, (ast.Assign, ast.Return, ast.Expr)) and isinstance(getattr(st, "value", None), ast.Call) else None
        if c is not None and isinstance(c.func, ast.Name) and c.func.id == opn:
            star = any(isinstance(a, ast.Starred) for a in c.args)
            dstar = any(k.arg is None for k in c.keywords)
            deq = any(isinstance(x, ast.Call) and isinstance(x.func, ast.Attribute) and x.func.attr == "dequantize" for x in nodes)
            inner = c.args and isinstance(c.args[0], ast.Attribute) and c.args[0].attr in ("_scale", "_data", "_zeropoint")
            if inner:
                # the mutating op applied to an inner tensor of a destination: per-tensor views hold the same scale object as their base
                facts.setdefault("inner_ops", []).append((c.lineno, U(c)[:60]))
                continue
            if facts["reissue"] is None or (star and dstar and not (facts["reissue"][1] and facts["reissue"][2])):
                facts["reissue"] = (c.lineno, star, dstar, deq)
                if isinstance(st, ast.Assign) and isinstance(st.targets[0], ast.Name):
                    out_name = st.targets[0].id
    # the module-level functions the fallback is split into (one level): the loops below may live in them
    region = [fn]
    for x in nodes:
        if isinstance(x, ast.Call) and isinstance(x.func, ast.Name):
            r = repo.resolve(mi, x.func.id)
            if r is not None and isinstance(r[1], ast.FunctionDef) and r[1] is not fn and r[0] is mi and r[1] not in region:
                region.append(r[1])
    rnodes = [y for f_ in region for y in ast.walk(f_)]
    # the list of (destination, stand-in) pairs
    pairs = None
    for x in rnodes:
        if isinstance(x, ast.Call) and isinstance(x.func, ast.Attribute) and x.func.attr == "append" and isinstance(x.func.value, ast.Name) and x.args and isinstance(x.args[0], ast.Tuple) and len(x.args[0].elts) == 2:
            pairs = x.func.value.id
    facts["pairs"] = pairs
    # the conditions under which a destination is recorded: beyond "the schema marks the argument as written" and "it is a quantized tensor", a test
    # on the IDENTITY of the value (`id(value) not in seen`) skips a tensor that was first met under a name the op only reads (torch.add(q, p, out=q))
    facts["record_guards"] = []

    def find_append(body, guards):
        for st in body:
            if isinstance(st, ast.If):
                find_append(st.body, guards + [st.test])
                find_append(st.orelse, guards + [ast.UnaryOp(op=ast.Not(), operand=st.test)])
            elif isinstance(st, (ast.For, ast.While, ast.With, ast.Try)):
                find_append(getattr(st, "body", []), guards)
            elif isinstance(st, ast.FunctionDef):
                find_append(st.body, guards)
            else:
                for x in ast.walk(st):
                    if isinstance(x, ast.Call) and isinstance(x.func, ast.Attribute) and x.func.attr == "append" and isinstance(x.func.value, ast.Name) and x.func.value.id == pairs:
                        facts["record_guards"] = [U(g) for g in guards]

    if pairs is not None:
        for f_ in region:
            if not facts["record_guards"]:
                find_append(f_.body, [])
    # the copies
    copies = []
    quant = None
    depth = [0]

    def walk_loop(body, dname, guards):
        nonlocal quant
        for st in body:
            if isinstance(st, ast.If):
                t = U(st.test)
                size_test = ".numel()" in t or ".size()" in t or ".shape" in t or ".nelement()" in t
                walk_loop(st.body, dname, guards + ([] if size_test else [t]))
                walk_loop(st.orelse, dname, guards + ([] if size_test else ["not " + t]))
            elif isinstance(st, (ast.With, ast.Try)):
                walk_loop(st.body, dname, guards)
            else:
                for c in ast.walk(st):
                    if isinstance(c, ast.Call) and isinstance(c.func, ast.Attribute) and c.func.attr == "copy_" and U(c.func.value) == dname:
                        copies.append((c.lineno, list(guards)))
                        if c.args:
                            quant = (c.args[0], dname)
                    elif isinstance(c, ast.Call) and isinstance(c.func, ast.Name) and any(U(a) == dname for a in c.args) and depth[0] < 2:
                        # the write of one destination moved into a helper of the module: follow the destination into it
                        callee = next((f_ for f_ in region[1:] if f_.name == c.func.id), None)
                        if callee is not None:
                            cp = positional_params(callee)
                            idx = next(i for i, a in enumerate(c.args) if U(a) == dname)
                            if idx < len(cp):
                                depth[0] += 1
                                walk_loop(callee.body, cp[idx], guards)
                                depth[0] -= 1

    for lp in rnodes:
        # a loop over the recorded pairs (the list itself, or the parameter of a helper that receives it)
        if isinstance(lp, ast.For) and pairs is not None and isinstance(lp.iter, ast.Name) and isinstance(lp.target, ast.Tuple) and len(lp.target.elts) == 2 and isinstance(lp.target.elts[0], ast.Name):
            walk_loop(lp.body, lp.target.elts[0].id, [])
    facts["copies"] = copies
    # a copy_ somewhere in the region that the loop vocabulary above did not recognise: undecided rather than "never writes back"
    facts["other_copies"] = [x.lineno for x in rnodes if isinstance(x, ast.Call) and isinstance(x.func, ast.Attribute) and x.func.attr == "copy_"] if not copies else []
    # the scale of what is copied
    facts["quant"] = None
    if quant is not None:
        src, dname = quant
        cand = None
        for c in ast.walk(src):
            if isinstance(c, ast.Call) and U(c.func).endswith("Quantizer.apply") and len(c.args) >= 4:
                cand = (c.args[3], dname, fn)
        if cand is None and isinstance(src, ast.Call) and isinstance(src.func, ast.Name):
            r = repo.resolve(mi, src.func.id)
            if r is not None and isinstance(r[1], ast.FunctionDef):
                hp = positional_params(r[1])
                facts["quant_helper"] = r[1]
                # the destination is the helper's parameter that receives `dname`
                dpar = next((hp[i] for i, a in enumerate(src.args) if U(a) == dname and i < len(hp)), None)
                for p in paths_of(r[1]):
                    if p.end[0] == "return" and p.end[1] is not None:
                        for c in ast.walk(p.end[1]):
                            if isinstance(c, ast.Call) and U(c.func).endswith("Quantizer.apply") and len(c.args) >= 4:
                                cand = (c.args[3], dpar, r[1])
        facts["quant"] = cand
    # what is returned
    kinds = set()
    for st in nodes:
        if isinstance(st, ast.Return) and st.value is not None and any(st in ast.walk(b) for b in fn.body if not isinstance(b, (ast.FunctionDef,))):
            v = st.value
            if isinstance(v, ast.Name) and v.id == out_name:
                # `if not destinations: return output`: nothing quantized was written, the value of the op is the answer
                under_empty = any(isinstance(i_, ast.If) and U(i_.test) in (f"not {pairs}", f"len({pairs}) == 0", f"{pairs} == []") and any(st is y for b_ in i_.body for y in ast.walk(b_)) for i_ in nodes)
                kinds.add("mapped" if under_empty else "raw")
            elif isinstance(v, ast.Call) and isinstance(v.func, ast.Name) and (any(isinstance(d, ast.FunctionDef) and d.name == v.func.id for d in fn.body) or any(d.name == v.func.id for d in region[1:])):
                d = next((d for d in fn.body if isinstance(d, ast.FunctionDef) and d.name == v.func.id), None) or next(d for d in region[1:] if d.name == v.func.id)
                hands_back = any(isinstance(x, ast.Compare) and len(x.ops) == 1 and isinstance(x.ops[0], ast.Is) for x in ast.walk(d)) and any(isinstance(x, ast.For) and isinstance(x.iter, ast.Name) for x in ast.walk(d))
                kinds.add("mapped" if hands_back else "other")
            else:
                kinds.add("other")
    facts["returns"] = "mapped" if kinds == {"mapped"} else ("raw" if "raw" in kinds else "other")
    facts["names"] = (opn, argsn, kwn)
    return facts


def writeback_fallback(repo: Repo, name: str):
    """Classify the paths of a dispatch-level helper `name(op, *args, **kwargs)`: a list of (kind, path) with kind "fallback" (returns
    qfallback(op, *args, ...)), "writeback" (returns the destination - the first argument or the `out` keyword - or the result of a write into it)
    or a description of the unrecognised end. None when `name` is not a function of the repo."""
    if not name.isidentifier():
        return None
    try:
        mi, fn = repo.func(name)
    except AnalysisError:
        return None
    params = positional_params(fn)
    if not params or fn.args.vararg is None:
        return None
    opn, argsn = params[0], fn.args.vararg.arg
    kwn = fn.args.kwarg.arg if fn.args.kwarg is not None else None
    dests = {f"{argsn}[0]"}
    if kwn is not None:
        dests |= {f"{kwn}.pop('out')", f"{kwn}['out']", f"{kwn}.get('out')", f"{kwn}.pop('out', None)"}
    out = []
    for p in paths_of(fn):
        kind, expr, line = p.end
        if kind == "raise":
            continue
        if kind != "return" or expr is None:
            out.append((f"line {line}: {kind}", p))
            continue
        if isinstance(expr, ast.Call) and U(expr.func) == "qfallback":
            a = [U(x) for x in expr.args]
            fwd_ok = a[:1] == [opn] and f"*{argsn}" in a and (kwn is None or any(k.arg is None and U(k.value) == kwn for k in expr.keywords))
            # the keywords handed on are the ones received: nothing was taken out of them on the way (`dest = kwargs.pop("out", None)` before the
            # plain route leaves torch.add(q, 1, out=plain) without its destination)
            removed = []
            if kwn is not None:
                seen_exprs = [v for v in p.env.values() if isinstance(v, ast.AST)] + [ef[1] for ef in p.effects if len(ef) > 1 and isinstance(ef[1], ast.AST)]
                for v in seen_exprs:
                    for c in ast.walk(v):
                        if isinstance(c, ast.Call) and isinstance(c.func, ast.Attribute) and c.func.attr in ("pop", "popitem", "clear") and U(c.func.value) == kwn:
                            removed.append(U(c))
                removed += [f"del {U(ef[1])}" for ef in p.effects if ef[0] == "del" and isinstance(ef[1], ast.AST) and U(ef[1]).startswith(kwn + "[")]
            restored = any(ef[0] == "substore" and U(ef[1]) == kwn for ef in p.effects)
            if not fwd_ok:
                out.append((f"line {line}: qfallback without the forwarded arguments", p))
            elif removed and not restored:
                out.append((f"dropped:{removed[0]}", p))
            elif removed:
                out.append((f"line {line}: keywords removed and written again before qfallback", p))
            else:
                out.append(("fallback", p))
            continue
        e = expr
        # dest.copy_(...) / dest
        if isinstance(e, ast.Call) and isinstance(e.func, ast.Attribute) and e.func.attr in ("copy_",):
            e = e.func.value
        if U(e) in dests:
            out.append(("writeback", p))
        elif any(isinstance(x, ast.Call) and any(isinstance(a, ast.Starred) and U(a.value) == argsn for a in x.args) for x in ast.walk(expr)) and not any(U(x) in dests for x in ast.walk(expr)):
            # the value of an operation re-issued on the arguments, with no write into the destination
            out.append(("fresh", p))
        else:
            out.append((f"line {line}: returns `{U(expr)[:50]}`", p))
    return out


def _dispatch_rules(repo: Repo, hs) -> List[Rec]:
    """C05.R8 / R9: dispatch totality and the fallback."""
    recs = []

    def R(rule, verdict, mi, node, fn, tag, detail, witness=""):
        recs.append(Rec("C05", rule, verdict, f"{mi.rel}:{node.lineno}", fn, tag, detail, witness))

    for cname, getter in (("QBytesTensor", "get_qbytestensor_op_dispatch"), ("QBitsTensor", "get_qbitstensor_op_dispatch")):
        ci = repo.cls(cname)
        fn = ci.own("__torch_dispatch__")
        if fn is None:
            recs.append(Rec("C05", "C05.R8", "unknown", f"{ci.mod.rel}:{ci.node.lineno}", cname, "", f"{cname}.__torch_dispatch__ not found"))
            continue
        ps = paths_of(fn)
        params = positional_params(fn)
        opn, argsn, kwn = params[1], params[3], params[4]
        n_ok = 0
        for p in ps:
            kind, expr, line = p.end
            qn = f"{cname}.__torch_dispatch__"
            if kind != "return" or not isinstance(expr, ast.Call):
                R("C05.R8", "bad", ci.mod, fn, qn, "dispatch path without call", f"path ending at line {line} does not return a dispatched call", "any op taking this path")
                continue
            f = U(expr.func)
            args = [U(a) for a in expr.args]
            kws = [(k.arg, U(k.value)) for k in expr.keywords]
            lookup = f"{getter}({opn}.overloadpacket)"
            kw_forms = ([(None, kwn)], [(None, f"{kwn} or {{}}")], [(None, f"dict({kwn} or {{}})")], [(None, f"{{}} if {kwn} is None else {kwn}")], [(None, f"{kwn} if {kwn} is not None else {{}}")], [(None, f"dict({kwn})")])
            if f == lookup:
                ok = args == [f"*{argsn}"] and kws in kw_forms
                fact = p.holds(f"{lookup} is None")
                ok = ok and fact is False
                R("C05.R8", "ok" if ok else "bad", ci.mod, expr, qn, "registered handler call", f"registered handler called as `{U(expr)[:80]}` with *args/**kwargs forwarded under `is not None`: {ok}", "any intercepted op: arguments dropped")
                n_ok += ok
            elif f == "qfallback":
                ok = args == [f"{opn}.overloadpacket", f"*{argsn}"] and kws in kw_forms
                R("C05.R8", "ok" if ok else "bad", ci.mod, expr, qn, "fallback call", f"fallback called as `{U(expr)[:80]}` with the op packet and *args/**kwargs: {ok}", "any op without a handler")
                n_ok += ok
            else:
                # a write-back fallback: a repo function that either defers to qfallback with the forwarded arguments or returns the written destination
                sw = schema_writeback(repo, f)
                if sw is not None:
                    fwd = args in ([f"{opn}", f"*{argsn}"], [f"{opn}.overloadpacket", f"*{argsn}"]) and kws in kw_forms and args[0] == opn
                    ri = sw["reissue"]
                    if not fwd:
                        R("C05.R8", "bad", ci.mod, expr, qn, "write-back fallback call", f"schema-driven write-back fallback called as `{U(expr)[:80]}`: the overload (its schema is read) and *args/**kwargs are not forwarded", "any mutating op without a handler")
                    elif sw.get("coarse_key"):
                        ck = sw["coarse_key"]
                        R("C05.R8", "bad", ci.mod, expr, qn, "schema analysis memoised per packet name", f"`{ck[2]}` memoises what the schema says under `{ck[1]}` (line {ck[0]}): `_schema.name` is the same for every overload of a packet, whose written arguments differ",
                          "torch.max(q, out=o) then torch.max(q, 0, out=(values, indices)): the second call looks for a destination named `out`, `values` is left stale, no error")
                    elif any("id(" in g_ for g_ in sw.get("record_guards", [])):
                        g_ = next(g_ for g_ in sw["record_guards"] if "id(" in g_)
                        R("C05.R8", "bad", ci.mod, expr, qn, "write-back fallback records a destination once per identity", f"`{f}` records a written argument only under `{g_[:60]}`: a tensor first met under a name the op only reads is never recorded when it comes again as the destination",
                          "torch.add(q, p, out=q), torch.clamp(q, min=0, out=q), torch.cumsum(q, 0, out=q): q keeps its old values, no error")
                    elif sw.get("inner_ops"):
                        R("C05.R8", "bad", ci.mod, expr, qn, "write-back fallback applies the op to an inner tensor", f"`{f}` applies the mutating op to an inner tensor of the destination at line {sw['inner_ops'][0][0]} (`{sw['inner_ops'][0][1]}`): a per-tensor view holds the scale object of its base, so the whole base is rescaled",
                          "q[0].mul_(2.0) / q[0:1, :2] *= 2 on a per-tensor tensor: every element of q is doubled")
                    elif ri is None or not sw["schema"]:
                        R("C05.R8", "unknown", ci.mod, expr, qn, "write-back fallback call", f"`{f}` reads the schema of the op but the re-issued call / the written-argument test were not recognised")
                    elif not (ri[1] and ri[2]):
                        R("C05.R8", "bad", ci.mod, expr, qn, "write-back fallback re-issues the op without its arguments", f"`{f}` re-issues the op at line {ri[0]} without {'*args' if not ri[1] else '**kwargs'}", "q.clamp_(min=0.): the keyword is lost")
                    elif sw["returns"] == "raw":
                        R("C05.R8", "bad", ci.mod, expr, qn, "write-back fallback returns a fresh tensor", f"`{f}` returns the value of the re-issued operation (a dequantized stand-in), not the destination", "q.relu_() returns a plain tensor: `q = q.relu_()` / `x += 1` rebind the name to it")
                    elif sw["returns"] != "mapped":
                        R("C05.R8", "unknown", ci.mod, expr, qn, "write-back fallback call", f"`{f}`: what it returns is outside the vocabulary of the rule (the destinations in place of their stand-ins)")
                    else:
                        R("C05.R8", "ok", ci.mod, expr, qn, "write-back fallback call", f"schema-driven write-back fallback `{f}` called with the overload and *args/**kwargs; it re-issues the op on dequantized stand-ins (line {ri[0]}) and hands the written tensors back", "any mutating op without a handler")
                        n_ok += 1
                    continue
                wb = writeback_fallback(repo, f)
                if wb is None:
                    R("C05.R8", "bad", ci.mod, expr, qn, "dispatch target", f"dispatch returns `{U(expr)[:80]}`: neither the registered handler nor qfallback", "any op")
                else:
                    fwd = args == [f"{opn}.overloadpacket", f"*{argsn}"] and kws in kw_forms
                    conforms = all(k in ("fallback", "writeback") for k, _ in wb)
                    fresh = [hp_ for k, hp_ in wb if k == "fresh"]
                    dropped = [(k, hp_) for k, hp_ in wb if k.startswith("dropped:")]
                    if dropped:
                        R("C05.R8", "bad", ci.mod, expr, qn, "write-back fallback drops a keyword before the plain route", f"`{f}` evaluates `{dropped[0][0][8:]}` on the path that ends in qfallback(..., **{kwn}) at line {dropped[0][1].end[2]}: the op is re-issued without that keyword", "torch.add(q, 1, out=plain_tensor): the destination is never written")
                    elif fresh:
                        R("C05.R8", "bad", ci.mod, expr, qn, "write-back fallback returns a fresh tensor", f"`{f}` returns the value of the re-issued operation at line {fresh[0].end[2]} without writing it into the destination", "q.relu_() / q.zero_(): the operand comes back unchanged")
                    elif not fwd:
                        R("C05.R8", "bad", ci.mod, expr, qn, "write-back fallback call", f"write-back fallback called as `{U(expr)[:80]}`: the op packet and *args/**kwargs are not forwarded", "any mutating op without a handler")
                    elif not conforms:
                        R("C05.R8", "unknown", ci.mod, expr, qn, "write-back fallback call", f"`{f}` has a path ending outside the vocabulary of the rule (qfallback with the forwarded arguments / the written destination): {[k for k, _ in wb if k not in ('fallback', 'writeback')][:3]}")
                    else:
                        R("C05.R8", "ok", ci.mod, expr, qn, "write-back fallback call", f"write-back fallback `{f}` called with the op packet and *args/**kwargs; its {len(wb)} path(s) end in qfallback or return the written destination", "any mutating op without a handler")
                        n_ok += 1
    # __torch_function__
    qt = repo.cls("QTensor")
    tf = qt.own("__torch_function__")
    if tf is None:
        recs.append(Rec("C05", "C05.R8", "unknown", f"{qt.mod.rel}:{qt.node.lineno}", "QTensor", "", "QTensor.__torch_function__ not found"))
    else:
        params = positional_params(tf)
        funcn = params[1]
        for p in paths_of(tf):
            kind, expr, line = p.end
            qn = "QTensor.__torch_function__"
            if kind != "return" or not isinstance(expr, ast.Call):
                R("C05.R8", "bad", qt.mod, tf, qn, "function dispatch path", f"path ending at line {line} does not return a call", "any torch function")
                continue
            f = U(expr.func)
            args = [U(a) for a in expr.args]
            kws = [(k.arg, U(k.value)) for k in expr.keywords]
            kw_ok = kws in ([(None, "kwargs or {}")], [(None, "kwargs")], [(None, "kwargs if kwargs is not None else {}")]) or (kws == [(None, "{}")] and p.holds("kwargs is None") is True)
            if f == f"get_qtensor_func({funcn})":
                ok = args == ["*args"] and kw_ok and p.holds(f"get_qtensor_func({funcn}) is None") is False
                R("C05.R8", "ok" if ok else "bad", qt.mod, expr, qn, "registered function call", f"registered function called with *args/**kwargs under `is not None`: {ok}", "any registered torch function")
            elif f == funcn:
                inside = any(c[0] == "with" and "DisableTorchFunctionSubclass" in U(c[1]) for c in p.ctx)
                ok = args == ["*args"] and kw_ok and inside
                R("C05.R8", "ok" if ok else "bad", qt.mod, expr, qn, "pass-through call", f"pass-through `{U(expr)[:60]}` re-issues the function with *args/**kwargs under DisableTorchFunctionSubclass: {ok}",
                  "any torch function without a quantized implementation (infinite recursion or dropped arguments)")
            else:
                R("C05.R8", "bad", qt.mod, expr, qn, "function dispatch target", f"`{U(expr)[:80]}` is neither the registered function nor the original function", "any torch function")
    # registered torch functions that must run on dequantized inputs
    for h in hs["qfunc"]:
        if any(o.split(".")[-1] in ("cross_entropy", "cosine_similarity", "layer_norm", "log_softmax", "topk") for o in h.ops):
            for p in paths_of(h.fn):
                kind, expr, line = p.end
                fnparams = positional_params(h.fn)
                ok = kind == "return" and isinstance(expr, ast.Call) and U(expr.func) == "qfallback" and [U(a) for a in expr.args] == [fnparams[0], f"*{h.fn.args.vararg.arg}" if h.fn.args.vararg else ""] and [(k.arg, U(k.value)) for k in expr.keywords] == [(None, h.fn.args.kwarg.arg if h.fn.args.kwarg else "")]
                recs.append(Rec("C05", "C05.R8", "ok" if ok else "bad", f"{h.mi.rel}:{line}", h.name, "dequantizing function wrapper", f"wrapper for {h.ops} returns qfallback(func, *args, **kwargs): {ok}", "any call of these functions with a quantized argument"))
    # exhaustiveness: a wrapper registered for a torch function none of the rules knows is reported as undecided, never passed over
    KNOWN_FUNCS = ("linear", "cross_entropy", "cosine_similarity", "layer_norm", "log_softmax", "topk", "_has_compatible_shallow_copy_type")
    for h in hs["qfunc"]:
        strangers = [o for o in h.ops if o.split(".")[-1] not in KNOWN_FUNCS]
        if strangers:
            recs.append(Rec("C05", "C05.R8", "unknown", f"{h.mi.rel}:{h.fn.lineno}", h.name, "", f"function wrapper {h.name} is registered for {strangers}: no rule of this checker describes what a quantized implementation of it must compute"))
    # the low-bit table: moves, detach and clone are judged by the move rules (C06.R2 / R4); any other handler is undecided
    KNOWN_QBITS = ("aten._to_copy", "aten.detach", "aten.clone")
    for h in hs["qbits"]:
        strangers = [o for o in h.ops if o not in KNOWN_QBITS]
        if strangers:
            for pid_, rule_ in (("C05", "C05.R1"), ("C06", "C06.R2")):
                recs.append(Rec(pid_, rule_, "unknown", f"{h.mi.rel}:{h.fn.lineno}", h.name, "", f"QBitsTensor handler {h.name} is registered for {strangers}: only moves, detach and clone of sub-byte tensors are described by the rules"))
    # qfallback
    mi, qf = repo.func("qfallback")
    ps = [p_ for p_ in paths_of(qf) if p_.end[0] != "raise"]
    params = positional_params(qf)
    ok = False
    detail = "qfallback body not recognised"
    if len(ps) == 1 and ps[0].end[0] == "return":
        expr = ps[0].end[1]
        from .core import CanonStr
        txt = CanonStr(U(expr).replace("torch.utils._pytree.", "pytree."))
        # callable(*mapped[0], **mapped[1]) with mapped = pytree.tree_map_only(QTensor, lambda x: x.dequantize(), (args, kwargs or {}))
        want_map = ("pytree.tree_map_only(QTensor, lambda x: x.dequantize(), (args, kwargs or {}))", "pytree.tree_map_only(QTensor, lambda x: x.dequantize(), (args, kwargs))")
        for wm in want_map:
            if txt == f"{params[0]}(*{wm}[0], **{wm}[1])":
                ok = True
        detail = f"qfallback returns `{txt[:110]}`"
    recs.append(Rec("C05", "C05.R9", "ok" if ok else "bad", f"{mi.rel}:{qf.lineno}", "qfallback", "qfallback maps dequantize over args and kwargs",
                    detail + f": dequantize mapped over every QTensor (base class) in args AND kwargs, callable applied to both: {ok}",
                    "a quantized tensor passed by keyword, or a QBitsTensor argument, reaches the float kernel undequantized"))
    return recs
