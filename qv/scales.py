"""Shape of range/scale functions (absmax_scale, optimizers) — shared by C03, C12, C16."""
from __future__ import annotations

import ast
import re
from dataclasses import dataclass
from typing import List, Optional

from .core import AnalysisError, ModuleInfo, Path, Repo, U, inline, paths_of, positional_params


@dataclass
class RangeTerm:
    path: Path
    line: int
    reduce: str  # max | amax | amin | other
    operand: ast.AST  # the tensor reduced
    n_abs: int  # number of abs() wrapped around the source
    source: Optional[str]  # name of the source after stripping abs
    dim: Optional[ast.AST]
    keepdim: Optional[str]
    expr: ast.AST


def strip_abs(e: ast.AST):
    n = 0
    while isinstance(e, ast.Call) and ((isinstance(e.func, ast.Attribute) and e.func.attr in ("abs", "absolute") and ((U(e.func.value) == "torch" and len(e.args) == 1) or (U(e.func.value) != "torch" and not e.args)))):
        e = e.args[0] if U(e.func.value) == "torch" else e.func.value
        n += 1
    return e, n


def reduction(e: ast.AST) -> Optional[RangeTerm]:
    """Recognise torch.max(X) / X.max() / torch.amax(X, dim=D, keepdim=K) / amin."""
    # wrappers that keep the values of a reduction of X: layout / graph membership / device, and a cast to X's own dtype or device
    while isinstance(e, ast.Call) and isinstance(e.func, ast.Attribute) and not e.keywords and (
            (e.func.attr in ("contiguous", "detach", "clone") and not e.args) or (e.func.attr == "to" and len(e.args) == 1 and U(e.args[0]).endswith((".dtype", ".device")))):
        e = e.func.value
    if not (isinstance(e, ast.Call) and isinstance(e.func, ast.Attribute)):
        return None
    name = e.func.attr
    if name not in ("max", "amax", "amin", "min"):
        return None
    if U(e.func.value) == "torch":
        if not e.args:
            return None
        operand, rest = e.args[0], e.args[1:]
    else:
        operand, rest = e.func.value, e.args
    kw = {k.arg: k.value for k in e.keywords}
    dim = kw.get("dim", rest[0] if rest else None)
    keep = kw.get("keepdim", rest[1] if len(rest) > 1 else None)
    src, n_abs = strip_abs(operand)
    return RangeTerm(None, e.lineno if hasattr(e, "lineno") else 0, name, operand, n_abs, U(src), dim, U(keep) if keep is not None else None, e)


def storage_max_of(e: ast.AST) -> Optional[str]:
    """'X' when e is the maximum of the storage range of dtype X: (torch.finfo if X.is_floating_point else torch.iinfo)(X).max"""
    if isinstance(e, ast.Attribute) and e.attr in ("max", "min") and isinstance(e.value, ast.Call) and len(e.value.args) == 1:
        f = e.value.func
        x = U(e.value.args[0])
        if isinstance(f, ast.IfExp):
            t, a, b = U(f.test), U(f.body), U(f.orelse)
            if (t == f"{x}.is_floating_point" and a == "torch.finfo" and b == "torch.iinfo") or (t == f"not {x}.is_floating_point" and a == "torch.iinfo" and b == "torch.finfo"):
                return x
        if U(f) == "dtype_info":
            return x
    # (torch.finfo(X) if X.is_floating_point else torch.iinfo(X)).max
    if isinstance(e, ast.Attribute) and e.attr in ("max", "min") and isinstance(e.value, ast.IfExp):
        t, a, b = e.value.test, e.value.body, e.value.orelse
        if isinstance(a, ast.Call) and isinstance(b, ast.Call) and len(a.args) == 1 and len(b.args) == 1 and U(a.args[0]) == U(b.args[0]):
            x = U(a.args[0])
            fa, fb = U(a.func), U(b.func)
            if (U(t) == f"{x}.is_floating_point" and fa == "torch.finfo" and fb == "torch.iinfo") or (U(t) == f"not {x}.is_floating_point" and fa == "torch.iinfo" and fb == "torch.finfo"):
                return x
    return None


def fold_dims(dim_expr: ast.AST, ndim: int, axis, base_name: str = "base"):
    """Evaluate a pure integer list expression for concrete ndim/axis: list(range(1, base.ndim)), [..][:-1], IfExp on axis."""
    env = {f"{base_name}.ndim": ndim, "axis": axis}

    def ev(e):
        if isinstance(e, ast.Constant):
            return e.value
        if isinstance(e, ast.Name):
            if e.id in env:
                return env[e.id]
            if e.id == "None":
                return None
            raise AnalysisError(f"dim expression: unknown name {e.id}")
        if isinstance(e, ast.Attribute):
            t = U(e)
            if t in env:
                return env[t]
            if e.attr == "ndim":
                return ndim
            raise AnalysisError(f"dim expression: unknown attribute {t}")
        if isinstance(e, ast.Call):
            f = U(e.func)
            if f == "list" and len(e.args) == 1:
                return list(ev(e.args[0]))
            if f == "tuple" and len(e.args) == 1:
                return list(ev(e.args[0]))
            if f in ("int",) and len(e.args) == 1:
                return ev(e.args[0])
            if f == "range":
                return list(range(*[ev(a) for a in e.args]))
            if f == "len" and len(e.args) == 1:
                v = e.args[0]
                if isinstance(v, ast.Attribute) and v.attr == "shape":
                    return ndim
                return len(ev(v))
            if f.endswith(".dim") and not e.args:
                return ndim
            if f == "__axis_to_dim__":
                return ev(e.args[0])
            raise AnalysisError(f"dim expression: call {f}")
        if isinstance(e, ast.BinOp):
            a, b = ev(e.left), ev(e.right)
            if isinstance(e.op, ast.Sub):
                return a - b
            if isinstance(e.op, ast.Add):
                return a + b
            if isinstance(e.op, ast.Mod):
                return a % b
            raise AnalysisError("dim expression: operator")
        if isinstance(e, ast.UnaryOp) and isinstance(e.op, ast.USub):
            return -ev(e.operand)
        if isinstance(e, ast.IfExp):
            return ev(e.body) if ev(e.test) else ev(e.orelse)
        if isinstance(e, ast.Compare) and len(e.ops) == 1:
            a, b = ev(e.left), ev(e.comparators[0])
            op = e.ops[0]
            return {ast.Eq: a == b, ast.NotEq: a != b, ast.Lt: a < b, ast.LtE: a <= b, ast.Gt: a > b, ast.GtE: a >= b, ast.Is: a is b, ast.IsNot: a is not b,
                    ast.In: (a in b) if isinstance(b, (list, tuple)) else False, ast.NotIn: (a not in b) if isinstance(b, (list, tuple)) else True}[type(op)]
        if isinstance(e, (ast.List, ast.Tuple)):
            return [ev(x) for x in e.elts]
        if isinstance(e, ast.Subscript):
            v = ev(e.value)
            if isinstance(e.slice, ast.Slice):
                lo = ev(e.slice.lower) if e.slice.lower else None
                hi = ev(e.slice.upper) if e.slice.upper else None
                st = ev(e.slice.step) if e.slice.step else None
                return v[lo:hi:st]
            return v[ev(e.slice)]
        if isinstance(e, ast.ListComp) and len(e.generators) == 1 and isinstance(e.generators[0].target, ast.Name):
            g = e.generators[0]
            out = []
            for x in ev(g.iter):
                env[g.target.id] = x
                if all(ev(c) for c in g.ifs):
                    out.append(ev(e.elt))
            env.pop(g.target.id, None)
            return out
        raise AnalysisError(f"dim expression: {type(e).__name__}")

    return ev(dim_expr)


def axis_to_dim_eval(repo: Repo, ndim: int, axis):
    """Abstractly run core.axis_to_dim (list mutation idiom: dim = list(range(t.ndim)); dim = dim[:-1] | dim.remove(axis))."""
    mi, fn = repo.func("axis_to_dim")
    params = positional_params(fn)
    tname, aname = params[0], params[1]
    env = {}

    def run(stmts):
        for st in stmts:
            if isinstance(st, ast.Assign) and isinstance(st.targets[0], ast.Name):
                env[st.targets[0].id] = fold_with(st.value)
            elif isinstance(st, ast.If):
                r = run(st.body if fold_with(st.test) else st.orelse)
                if r is not None:
                    return r
            elif isinstance(st, ast.Expr) and isinstance(st.value, ast.Call) and isinstance(st.value.func, ast.Attribute) and st.value.func.attr == "remove":
                lst = env[U(st.value.func.value)]
                v = fold_with(st.value.args[0])
                if v not in lst:
                    raise AnalysisError("axis_to_dim: remove of an absent element")
                lst.remove(v)
            elif isinstance(st, ast.Return):
                return fold_with(st.value)
            else:
                raise AnalysisError(f"axis_to_dim: statement {type(st).__name__} not modelled")
        return None

    def fold_with(e):
        class Sub(ast.NodeTransformer):
            def visit_Name(self, n):
                if n.id in env and isinstance(env[n.id], list):
                    return ast.List(elts=[ast.Constant(value=x) for x in env[n.id]], ctx=ast.Load())
                return n
        import copy
        e2 = Sub().visit(copy.deepcopy(e))
        return fold_dims(e2, ndim, axis, base_name=tname)

    # parameter named like `axis`
    if aname != "axis":
        raise AnalysisError("axis_to_dim: parameter naming not recognised")
    return run(fn.body)


def peel_floor(e: ast.AST):
    """(inner, floors): strips lower-bounding wrappers clamp(x, min=c) / x.clamp(min=c) / maximum(x, c) / clamp_min / x + c."""
    floors = []
    while True:
        if isinstance(e, ast.Call) and isinstance(e.func, ast.Attribute) and e.func.attr in ("clamp", "clip", "clamp_min", "maximum"):
            is_torch = U(e.func.value) == "torch"
            inner = e.args[0] if is_torch and e.args else e.func.value
            kw = {k.arg: k.value for k in e.keywords}
            rest = e.args[1:] if is_torch else e.args
            lo = kw.get("min", rest[0] if rest else None)
            hi = kw.get("max", rest[1] if len(rest) > 1 else None)
            if e.func.attr in ("clamp", "clip") and lo is None:
                # an upper bound `finfo(dtype).max / D` on a quotient `x / D` only binds where D * scale would not be representable:
                # it does not change the scale of any row whose dequantized extreme is finite (the repair of C16.R8)
                if hi is not None and isinstance(inner, ast.BinOp) and isinstance(inner.op, ast.Div) and isinstance(hi, ast.BinOp) and isinstance(hi.op, ast.Div) \
                        and U(hi.right) == U(inner.right) and ("finfo(" in U(hi.left) or "dtype_info(" in U(hi.left)) and U(hi.left).endswith(".max"):
                    e = inner
                    continue
                return e, floors
            floors.append(U(lo) if lo is not None else "?")
            if hi is not None:
                floors.append("max=" + U(hi))
            e = inner
            continue
        if isinstance(e, ast.BinOp) and isinstance(e.op, ast.Add) and isinstance(e.right, ast.Constant) and isinstance(e.right.value, (int, float)) and isinstance(e.left, ast.BinOp) and isinstance(e.left.op, ast.Div):
            floors.append("+" + U(e.right))
            e = e.left
            continue
        return e, floors


def alternative_route(p, numerator) -> bool:
    """Is the value on this path produced by an ALTERNATIVE route the reduction rules do not follow?  The pattern `r = _fast(x); if r is None: <the plain
    reduction>`: on the path where the helper answered, the numerator is whatever the helper assembled (partial maxima of slices that are stacked / concatenated
    and reduced again, a product of a scale with the maximum of the codes).  Such a path is reported as undecided: the plain route next to it is what the
    rules judge."""
    import ast as _ast
    txt = U(numerator)
    if isinstance(numerator, _ast.Constant) and numerator.value is None:
        return True
    if any(k in txt for k in ("torch.cat(", "torch.stack(", "torch.maximum(")):
        return True
    for n in _ast.walk(numerator):
        if isinstance(n, _ast.Call) and isinstance(n.func, _ast.Name) and n.func.id.startswith("_") and not n.func.id.startswith("__"):
            return True
        if isinstance(n, _ast.Attribute) and n.attr in ("_scale", "_data"):
            return True  # a quantized operand reduced on its codes
        if isinstance(n, _ast.Subscript) and isinstance(n.slice, _ast.Slice):
            return True  # a slice of the operand: a partial reduction
    for c, t, _ in p.conds:
        ct = U(c)
        if re.search(r"\b_[a-z]\w*\(", ct) and " is None" in ct and t is False:
            return True
        if "isinstance(" in ct and ("QBytesTensor" in ct or "QTensor" in ct) and t is True:
            return True
    return False


# ---------------------------------------------------------------------------------------------------------------------------------------
# Shape domain: the range expression evaluated, for one concrete (ndim, axis), over "which dims of the base each dim of the result spans".
# Used when the numerator of a scale is not a bare amax/max call (a reduction over a flattened or reshaped view: seed C03-51).

class _Size:
    """The extent of one (possibly merged) group of dims of the base."""

    def __init__(self, group):
        self.group = frozenset(group)


class SymShape:
    def __init__(self, groups, absd=False, reduced=frozenset(), raw_reduced=False):
        self.groups = [frozenset(g) for g in groups]
        self.absd = absd  # magnitudes taken before the reduction
        self.reduced = frozenset(reduced)  # dims of the base folded by a max
        self.raw_reduced = raw_reduced  # a max was taken over signed values

    def with_groups(self, groups):
        return SymShape(groups, self.absd, self.reduced, self.raw_reduced)


def shape_eval(expr: ast.AST, ndim: int, axis, base_name: str = "base") -> SymShape:
    """Evaluate a tensor expression over `base` (abs / flatten / amax / max / reshape / view / unsqueeze and the tuple arithmetic of their
    arguments) in the shape domain. Anything else raises AnalysisError: the caller leaves the obligation undecided."""

    def norm(d, n):
        if not isinstance(d, int) or isinstance(d, bool) or not -n <= d < max(n, 1):
            raise AnalysisError(f"shape domain: dim {d} out of range for rank {n}")
        return d % n if n else 0

    def reshape(t: SymShape, target):
        if len(target) == 1 and isinstance(target[0], (list, tuple)):
            target = list(target[0])
        src = [g for g in t.groups if g]
        if sum(1 for x in target if x == -1 and not isinstance(x, _Size)) > 1:
            raise AnalysisError("shape domain: two -1 in a reshape")
        out, explicit = [], []
        for x in target:
            if isinstance(x, _Size):
                out.append(x.group)
                if x.group:
                    explicit.append(x.group)
            elif x == 1:
                out.append(frozenset())
            elif x == -1:
                out.append(None)
            else:
                raise AnalysisError(f"shape domain: reshape to a literal extent {x!r}")
        if None not in out:
            if explicit != src:
                raise AnalysisError("shape domain: reshape does not keep the order of the extents")
            return t.with_groups(out)
        k = out.index(None)
        before = [g for g in out[:k] if g]
        after = [g for g in out[k + 1:] if g]
        if src[:len(before)] != before or (after and src[len(src) - len(after):] != after) or len(before) + len(after) > len(src):
            raise AnalysisError("shape domain: reshape does not keep the order of the extents")
        mid = src[len(before):len(src) - len(after)]
        out[k] = frozenset().union(*mid) if mid else frozenset()
        return t.with_groups(out)

    def method(t: SymShape, name, args, kw):
        n = len(t.groups)
        if name in ("abs", "absolute") and not args:
            if t.reduced:
                return t
            return SymShape(t.groups, True, t.reduced, t.raw_reduced)
        if name in ("contiguous", "detach", "clone") and not args:
            return t
        if name == "flatten":
            a = norm(args[0] if args else kw.get("start_dim", 0), n)
            b = norm(args[1] if len(args) > 1 else kw.get("end_dim", -1), n)
            if a > b:
                raise AnalysisError("shape domain: flatten(start > end)")
            return t.with_groups(t.groups[:a] + [frozenset().union(*t.groups[a:b + 1])] + t.groups[b + 1:])
        if name in ("amax", "max", "amin", "min"):
            dim = kw.get("dim", args[0] if args else None)
            keep = kw.get("keepdim", args[1] if len(args) > 1 else False)
            if name in ("max", "min") and dim is not None:
                raise AnalysisError("shape domain: max(dim) returns (values, indices)")
            if name in ("amin", "min"):
                raise AnalysisError("shape domain: min in a symmetric range")
            dims = list(range(n)) if dim is None or dim == [] else [norm(d, n) for d in (dim if isinstance(dim, (list, tuple)) else [dim])]
            red = frozenset().union(*[t.groups[d] for d in dims]) if dims else frozenset()
            groups = [(frozenset() if i in dims else g) for i, g in enumerate(t.groups) if keep or i not in dims]
            if dim is None:
                groups = []
            return SymShape(groups, t.absd, t.reduced | red, t.raw_reduced or not t.absd)
        if name in ("reshape", "view"):
            return reshape(t, list(args))
        if name == "unsqueeze" and len(args) == 1:
            d = args[0]
            d = d + n + 1 if d < 0 else d
            return t.with_groups(t.groups[:d] + [frozenset()] + t.groups[d:])
        raise AnalysisError(f"shape domain: method {name}")

    def ev(e):
        if isinstance(e, ast.Constant) and (isinstance(e.value, (int, bool)) or e.value is None):
            return e.value
        if isinstance(e, ast.Name):
            if e.id == base_name:
                return SymShape([{i} for i in range(ndim)])
            if e.id == "axis":
                return axis
            raise AnalysisError(f"shape domain: unknown name {e.id}")
        if isinstance(e, ast.Attribute):
            if e.attr == "ndim":
                v = ev(e.value)
                if isinstance(v, SymShape):
                    return len(v.groups)
            if e.attr == "shape":
                v = ev(e.value)
                if isinstance(v, SymShape):
                    return tuple(_Size(g) for g in v.groups)
            raise AnalysisError(f"shape domain: attribute {U(e)[:40]}")
        if isinstance(e, ast.Call):
            args = [ev(a) for a in e.args]
            kw = {k.arg: ev(k.value) for k in e.keywords if k.arg}
            if isinstance(e.func, ast.Attribute):
                if U(e.func.value) == "torch":
                    if args and isinstance(args[0], SymShape):
                        return method(args[0], e.func.attr, args[1:], kw)
                    raise AnalysisError(f"shape domain: torch.{e.func.attr}")
                recv = ev(e.func.value)
                if isinstance(recv, SymShape):
                    if e.func.attr in ("dim",) and not args:
                        return len(recv.groups)
                    if e.func.attr == "size" and not args:
                        return tuple(_Size(g) for g in recv.groups)
                    return method(recv, e.func.attr, args, kw)
                raise AnalysisError(f"shape domain: call {U(e.func)[:40]}")
            f = U(e.func)
            if f in ("tuple", "list") and len(args) == 1 and isinstance(args[0], (list, tuple)):
                return tuple(args[0])
            if f == "len" and len(args) == 1 and isinstance(args[0], (list, tuple)):
                return len(args[0])
            if f == "range" and all(isinstance(a, int) for a in args):
                return tuple(range(*args))
            raise AnalysisError(f"shape domain: call {f[:40]}")
        if isinstance(e, (ast.Tuple, ast.List)):
            out = []
            for x in e.elts:
                if isinstance(x, ast.Starred):
                    out.extend(ev(x.value))
                else:
                    out.append(ev(x))
            return tuple(out)
        if isinstance(e, ast.BinOp):
            a, b = ev(e.left), ev(e.right)
            if isinstance(a, SymShape) or isinstance(b, SymShape) or isinstance(a, _Size) or isinstance(b, _Size):
                raise AnalysisError("shape domain: arithmetic on a tensor or an extent")
            try:
                if isinstance(e.op, ast.Add):
                    return a + b
                if isinstance(e.op, ast.Sub):
                    return a - b
                if isinstance(e.op, ast.Mult):
                    return a * b
                if isinstance(e.op, ast.FloorDiv):
                    return a // b
            except TypeError:
                pass
            raise AnalysisError("shape domain: operator")
        if isinstance(e, ast.UnaryOp) and isinstance(e.op, ast.USub):
            v = ev(e.operand)
            if isinstance(v, int):
                return -v
        if isinstance(e, ast.Subscript):
            v = ev(e.value)
            if isinstance(v, tuple):
                if isinstance(e.slice, ast.Slice):
                    lo, hi = (ev(e.slice.lower) if e.slice.lower else None), (ev(e.slice.upper) if e.slice.upper else None)
                    if e.slice.step is None:
                        return v[lo:hi]
                else:
                    i = ev(e.slice)
                    if isinstance(i, int):
                        return v[i]
        if isinstance(e, ast.IfExp):
            c = fold_dims(e.test, ndim, axis, base_name)
            if isinstance(c, bool):
                return ev(e.body if c else e.orelse)
        raise AnalysisError(f"shape domain: {type(e).__name__} `{U(e)[:40]}`")

    r = ev(expr)
    if not isinstance(r, SymShape):
        raise AnalysisError("shape domain: the expression is not a tensor over the base")
    return r
