"""Small commutative-ring normaliser: expressions over + - * with numeric constants; everything else is an atom."""
from __future__ import annotations

import ast
from fractions import Fraction
from typing import Dict, Tuple

from .core import U

Poly = Dict[Tuple[str, ...], Fraction]


def _mul(a: Poly, b: Poly) -> Poly:
    out: Poly = {}
    for ma, ca in a.items():
        for mb, cb in b.items():
            m = tuple(sorted(ma + mb))
            out[m] = out.get(m, 0) + ca * cb
    return {m: c for m, c in out.items() if c != 0}


def _add(a: Poly, b: Poly, sign=1) -> Poly:
    out = dict(a)
    for m, c in b.items():
        out[m] = out.get(m, 0) + sign * c
    return {m: c for m, c in out.items() if c != 0}


def poly(e: ast.AST, atom=None, _canon=True) -> Poly:
    atom = atom or (lambda x: U(x))
    if _canon:
        from .core import canon_ast
        e = canon_ast(e)  # torch.mul / torch.neg / x.sub(y) ... are the operators
        return poly(e, atom, False)
    if isinstance(e, ast.Constant) and isinstance(e.value, (int, float)) and not isinstance(e.value, bool):
        return {(): Fraction(e.value).limit_denominator(10**9)} if e.value != 0 else {}
    if isinstance(e, ast.BinOp):
        if isinstance(e.op, ast.Add):
            return _add(poly(e.left, atom, False), poly(e.right, atom, False))
        if isinstance(e.op, ast.Sub):
            return _add(poly(e.left, atom, False), poly(e.right, atom, False), -1)
        if isinstance(e.op, ast.Mult):
            return _mul(poly(e.left, atom, False), poly(e.right, atom, False))
    if isinstance(e, ast.UnaryOp) and isinstance(e.op, ast.USub):
        return _add({}, poly(e.operand, atom, False), -1)
    if isinstance(e, ast.UnaryOp) and isinstance(e.op, ast.UAdd):
        return poly(e.operand, atom, False)
    if isinstance(e, ast.Call) and isinstance(e.func, ast.Attribute) and U(e.func.value) == "torch" and len(e.args) == 2 and not e.keywords:
        if e.func.attr in ("add",):
            return _add(poly(e.args[0], atom), poly(e.args[1], atom))
        if e.func.attr in ("sub", "subtract"):
            return _add(poly(e.args[0], atom), poly(e.args[1], atom), -1)
        if e.func.attr in ("mul", "multiply"):
            return _mul(poly(e.args[0], atom), poly(e.args[1], atom))
    return {(atom(e),): Fraction(1)}


def parse(s: str) -> Poly:
    return poly(ast.parse(s, mode="eval").body)


def show(p: Poly) -> str:
    if not p:
        return "0"
    return " + ".join((f"{c}*" if c != 1 or not m else "") + "*".join(m) for m, c in sorted(p.items()))
