"""Keyword profiles: WHAT a call forwards, whatever way the argument dictionary was built.

`op(x, dtype=d, **rest)` is described by its explicit keywords and by what `rest` is relative to the enclosing function's own `**kwargs`:
everything, everything but some keys, everything with some keys overridden.  The spellings recognised (after the path engine has substituted locals):

    **kwargs                                            all
    **{k: v for k, v in kwargs.items() if k != "K"}     all minus K          (also `k not in ("K",)`)
    **dict(kwargs) / **kwargs.copy() / **{**kwargs}     all                  (minus K when the path pops / deletes K from that copy)
    **{**kwargs, "K": X} / **dict(kwargs, K=X)          all, K overridden by X
    **(A if c else B)                                   both alternatives (the caller decides what it requires of each)

and one level of a forwarding helper `def h(op, t, **kw): kw.pop("K", None); return op(t, **kw)` called as `h(op, x, dtype=d, **kwargs)`.
Propositional entailment over the leaf conditions of a path (`entails`) lives here too: the guards of the move handlers are judged by what they
imply, not by how they are spelled."""
import ast
import itertools
from typing import Callable, Dict, List, Optional, Tuple

from .core import U


class Profile:
    def __init__(self, first=None, explicit=None, rest="none", minus=(), override=None, named=()):
        self.named = set(named)         # the enclosing function's own named parameters: never inside its **kwargs
        self.first = first              # text of the first positional argument
        self.explicit = explicit or {}  # keyword -> text
        self.rest = rest                # "all" | "none" | "unknown"
        self.minus = set(minus)
        self.override = override or {}  # keyword -> text (set on top of the forwarded dictionary)

    def passes(self, key) -> Optional[str]:
        """what the callee receives for `key`: a text, "<caller's>" when forwarded from **kwargs, None when never passed, "?" when unknown"""
        if key in self.explicit:
            return self.explicit[key]
        if key in self.override:
            return self.override[key]
        if self.rest == "unknown":
            return "?"
        if self.rest == "all" and key not in self.minus and key not in self.named:
            return "<caller's>"
        return None

    def forwards_rest(self, but=()) -> bool:
        """every other keyword of the caller is forwarded (nothing dropped except the keys in `but`)"""
        return self.rest == "all" and self.minus <= set(but)

    def __repr__(self):
        return f"Profile({self.first}, {self.explicit}, rest={self.rest}, minus={sorted(self.minus)}, override={self.override})"


def _const_keys_excluded(test, kvar) -> Optional[set]:
    # `k != "K"` / `k not in ("K", "L")` / conjunctions of these
    if isinstance(test, ast.BoolOp) and isinstance(test.op, ast.And):
        out = set()
        for v in test.values:
            s = _const_keys_excluded(v, kvar)
            if s is None:
                return None
            out |= s
        return out
    if isinstance(test, ast.Compare) and len(test.ops) == 1 and isinstance(test.left, ast.Name) and test.left.id == kvar:
        c = test.comparators[0]
        if isinstance(test.ops[0], ast.NotEq) and isinstance(c, ast.Constant) and isinstance(c.value, str):
            return {c.value}
        if isinstance(test.ops[0], ast.NotIn) and isinstance(c, (ast.Tuple, ast.List, ast.Set)) and all(isinstance(e, ast.Constant) for e in c.elts):
            return {e.value for e in c.elts}
    return None


def _rest_of(e, kwn, popped_of: Callable[[str], set]) -> List[Tuple[str, set, dict]]:
    """alternatives (rest, minus, override) for the expression after `**`"""
    if isinstance(e, ast.IfExp):
        return _rest_of(e.body, kwn, popped_of) + _rest_of(e.orelse, kwn, popped_of)
    if isinstance(e, ast.Name) and e.id == kwn:
        return [("all", set(), {})]
    if isinstance(e, ast.DictComp) and len(e.generators) == 1:
        g = e.generators[0]
        it = g.iter
        if (isinstance(it, ast.Call) and isinstance(it.func, ast.Attribute) and it.func.attr == "items" and isinstance(it.func.value, ast.Name) and it.func.value.id == kwn
                and isinstance(g.target, ast.Tuple) and len(g.target.elts) == 2 and all(isinstance(x, ast.Name) for x in g.target.elts)
                and U(e.key) == g.target.elts[0].id and U(e.value) == g.target.elts[1].id):
            minus = set()
            for t in g.ifs:
                s = _const_keys_excluded(t, g.target.elts[0].id)
                if s is None:
                    return [("unknown", set(), {})]
                minus |= s
            return [("all", minus, {})]
    if isinstance(e, ast.Call) and U(e.func) == "dict" and len(e.args) == 1 and isinstance(e.args[0], ast.Name) and e.args[0].id == kwn and all(k.arg for k in e.keywords):
        return [("all", set(popped_of(U(e))) - {k.arg for k in e.keywords}, {k.arg: U(k.value) for k in e.keywords})]
    if isinstance(e, ast.Call) and isinstance(e.func, ast.Attribute) and e.func.attr == "copy" and not e.args and isinstance(e.func.value, ast.Name) and e.func.value.id == kwn:
        return [("all", set(popped_of(U(e))), {})]
    if isinstance(e, ast.Dict) and e.keys and e.keys[0] is None and isinstance(e.values[0], ast.Name) and e.values[0].id == kwn and all(isinstance(k, ast.Constant) and isinstance(k.value, str) for k in e.keys[1:]):
        ov = {k.value: U(v) for k, v in zip(e.keys[1:], e.values[1:])}
        return [("all", set(popped_of(U(e))) - set(ov), ov)]
    if isinstance(e, ast.Dict) and not e.keys:
        return [("none", set(), {})]
    return [("unknown", set(), {})]


def profiles(call: ast.Call, kwn: Optional[str], path=None, resolve_helper=None, named=()) -> List[Profile]:
    """the alternatives for one (path-substituted) call.  `resolve_helper(name)` returns the FunctionDef of a module-level helper, or None."""
    def popped_of(text: str) -> set:
        out = set()
        if path is None:
            return out
        for ef in path.effects:
            if ef[0] == "expr" and isinstance(ef[1], ast.Call) and isinstance(ef[1].func, ast.Attribute) and ef[1].func.attr == "pop" and U(ef[1].func.value) == text \
                    and ef[1].args and isinstance(ef[1].args[0], ast.Constant) and len(ef[1].args) == 2:
                out.add(ef[1].args[0].value)  # pop(K, default): never raises
            if ef[0] == "del":
                for t in ef[1]:
                    if isinstance(t, ast.Subscript) and U(t.value) == text and isinstance(t.slice, ast.Constant):
                        out.add(t.slice.value)
        return out

    # one level of forwarding helper: h(op, x, k=v, **kwargs) with `def h(op, t, **kw): kw.pop("K", None); return op(t, **kw)`
    if resolve_helper is not None and isinstance(call.func, ast.Name):
        h = resolve_helper(call.func.id)
        if h is not None and h.args.kwarg is not None and len(h.args.args) == len(call.args) and not h.args.defaults:
            hk = h.args.kwarg.arg
            body = [s for s in h.body if not (isinstance(s, ast.Expr) and isinstance(s.value, ast.Constant))]
            pops, ret = set(), None
            ok = True
            for s in body:
                if isinstance(s, ast.Expr) and isinstance(s.value, ast.Call) and isinstance(s.value.func, ast.Attribute) and s.value.func.attr == "pop" and U(s.value.func.value) == hk \
                        and len(s.value.args) == 2 and isinstance(s.value.args[0], ast.Constant):
                    pops.add(s.value.args[0].value)
                elif isinstance(s, ast.Return) and isinstance(s.value, ast.Call) and s is body[-1]:
                    ret = s.value
                else:
                    ok = False
            if ok and ret is not None and any(k.arg is None and U(k.value) == hk for k in ret.keywords) and all(k.arg is None for k in ret.keywords):
                names = [a.arg for a in h.args.args]
                bind = {n: a for n, a in zip(names, call.args)}
                if isinstance(ret.func, ast.Name) and ret.func.id in bind and len(ret.args) == 1 and isinstance(ret.args[0], ast.Name) and ret.args[0].id in bind:
                    outer = profiles(ast.Call(func=bind[ret.func.id], args=[bind[ret.args[0].id]], keywords=call.keywords), kwn, path, None, named)
                    for pr in outer:
                        for k in pops:
                            pr.explicit.pop(k, None)
                            pr.override.pop(k, None)
                            pr.minus.add(k)
                    return outer
    explicit = {k.arg: U(k.value) for k in call.keywords if k.arg is not None}
    stars = [k.value for k in call.keywords if k.arg is None]
    first = U(call.args[0]) if call.args else None
    if not stars:
        return [Profile(first, explicit, "none", named=named)]
    if len(stars) > 1 or kwn is None:
        return [Profile(first, explicit, "unknown", named=named)]
    return [Profile(first, dict(explicit), r, m, o, named) for r, m, o in _rest_of(stars[0], kwn, popped_of)]


# ---------------------------------------------------------------------------------------------------------------------------------
def _leaves(c, out):
    if isinstance(c, ast.BoolOp):
        for v in c.values:
            _leaves(v, out)
    elif isinstance(c, ast.UnaryOp) and isinstance(c.op, ast.Not):
        _leaves(c.operand, out)
    else:
        out.append(c)


def _norm_leaf(c) -> Tuple[str, bool]:
    """(atom text, polarity): complementary spellings share one atom"""
    if isinstance(c, ast.Compare) and len(c.ops) == 1:
        l, r, op = U(c.left), U(c.comparators[0]), c.ops[0]
        if isinstance(op, ast.IsNot):
            return f"{l} is {r}", False
        if isinstance(op, ast.NotEq):
            return f"{l} == {r}", False
        if isinstance(op, ast.NotIn):
            return f"{l} in {r}", False
        if l.endswith(".itemsize") and isinstance(c.comparators[0], ast.Constant):
            v = c.comparators[0].value
            if (isinstance(op, ast.Gt) and v == 1) or (isinstance(op, ast.GtE) and v == 2):
                return f"{l} == 1", False
            if (isinstance(op, ast.Lt) and v == 2) or (isinstance(op, ast.LtE) and v == 1):
                return f"{l} == 1", True
    return U(c), True


def _ev(c, val: Dict[str, bool]) -> bool:
    if isinstance(c, ast.BoolOp):
        vs = [_ev(v, val) for v in c.values]
        return all(vs) if isinstance(c.op, ast.And) else any(vs)
    if isinstance(c, ast.UnaryOp) and isinstance(c.op, ast.Not):
        return not _ev(c.operand, val)
    a, pol = _norm_leaf(c)
    return val[a] if pol else not val[a]


def entails(conds: List[Tuple[ast.AST, bool]], goal: Callable[[Dict[str, bool]], bool], goal_atoms: List[str], max_atoms: int = 14):
    """Do the path conditions imply `goal` (a function of a valuation of atoms)?  Returns (verdict, foreign) where verdict is True / False and `foreign`
    lists the leaf atoms that are neither goal atoms nor mention-free of them (the caller may prefer "undecided" when a refutation rests on them)."""
    leaves = []
    for c, _t in conds:
        _leaves(c, leaves)
    names = sorted({_norm_leaf(l)[0] for l in leaves} | set(goal_atoms))
    if len(names) > max_atoms:
        return None, names
    foreign = [n for n in names if n not in goal_atoms]
    for bits in itertools.product((False, True), repeat=len(names)):
        val = dict(zip(names, bits))
        if all(_ev(c, val) == t for c, t in conds) and not goal(val):
            return False, foreign
    return True, foreign


# ---------------------------------------------------------------------------------------------------------------------------------
def forwarder_info(h: ast.FunctionDef):
    """`def h(op, t, **kw): kw.pop("K", None); return op(t, **kw)` -> (name of the op parameter, name of the tensor parameter, popped keys); None otherwise"""
    if h.args.kwarg is None or h.args.defaults or h.args.vararg or h.decorator_list:
        return None
    hk = h.args.kwarg.arg
    body = [s for s in h.body if not (isinstance(s, ast.Expr) and isinstance(s.value, ast.Constant))]
    pops, ret = set(), None
    for s in body:
        if isinstance(s, ast.Expr) and isinstance(s.value, ast.Call) and isinstance(s.value.func, ast.Attribute) and s.value.func.attr == "pop" and U(s.value.func.value) == hk \
                and len(s.value.args) == 2 and isinstance(s.value.args[0], ast.Constant):
            pops.add(s.value.args[0].value)
        elif isinstance(s, ast.Return) and isinstance(s.value, ast.Call) and s is body[-1]:
            ret = s.value
        else:
            return None
    names = [a.arg for a in h.args.args]
    if ret is None or not (isinstance(ret.func, ast.Name) and ret.func.id in names and len(ret.args) == 1 and isinstance(ret.args[0], ast.Name) and ret.args[0].id in names):
        return None
    if not (len(ret.keywords) == 1 and ret.keywords[0].arg is None and U(ret.keywords[0].value) == hk):
        return None
    return ret.func.id, ret.args[0].id, pops


def expand_forwarders(e: ast.AST, resolve_helper) -> ast.AST:
    """Rewrite every call of a forwarding helper `h(op, x, k=v, **kwargs)` into the call it makes: `op(x, k=v, **{kwargs minus the popped keys})`."""
    import copy

    class _X(ast.NodeTransformer):
        def visit_Call(self, node):
            self.generic_visit(node)
            if not isinstance(node.func, ast.Name):
                return node
            h = resolve_helper(node.func.id)
            info = forwarder_info(h) if h is not None else None
            if info is None or len(h.args.args) != len(node.args):
                return node
            opn, tn, pops = info
            bind = dict(zip([a.arg for a in h.args.args], node.args))
            kws = []
            for k in node.keywords:
                if k.arg is not None:
                    if k.arg not in pops:
                        kws.append(k)
                elif pops:
                    flt = " and ".join(f"k != {p!r}" for p in sorted(pops))
                    src = ast.unparse(k.value)
                    kws.append(ast.keyword(arg=None, value=ast.parse(f"{{k: v for k, v in {src}.items() if {flt}}}", mode="eval").body))
                else:
                    kws.append(k)
            return ast.Call(func=bind[opn], args=[bind[tn]], keywords=kws)
    return ast.fix_missing_locations(_X().visit(copy.deepcopy(e)))
