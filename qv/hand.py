"""Shared analysis of aten handlers (C05, C06, C07): per-path constructs of every registered handler."""
from __future__ import annotations

import ast
from dataclasses import dataclass, field
from typing import Dict, List, Optional

from .core import AnalysisError, N, Path, Repo, U, bind_call, paths_of, positional_params, subst
from .registries import Handler

# algebraic classes of aten ops (trusted table; an op that is not listed makes the analysis undecided)
MOVE_OPS = {  # pure data movement: commute with a per-tensor scale
    "aten.diagonal", "aten.unfold", "aten.split_with_sizes", "aten.unbind", "aten.as_strided",  # select / gather elements of the operand, as views
    "aten.expand", "aten.permute", "aten.select", "aten.slice", "aten.unsqueeze", "aten.squeeze", "aten.view", "aten._unsafe_view",
    "aten.reshape", "aten.transpose", "aten.split", "aten.split_with_sizes", "aten.unbind", "aten.chunk", "aten.narrow", "aten.flip", "aten.flatten",
    "aten.contiguous", "aten.alias", "aten.movedim", "aten.t",
}
PERMUTE_OPS = {"aten.transpose", "aten.permute", "aten.movedim", "aten.swapaxes", "aten.swapdims"}  # permutations of the dimensions (aten.t of a matrix has its own exact rule)
PRESERVE_OPS = {"aten.detach", "aten.clone", "aten._to_copy", "aten.to", "aten.alias", "aten.contiguous"}  # keep geometry
EWHOM_OPS = {"aten.neg", "aten.relu", "aten.abs"}  # elementwise f with f(s*x) = s*f(x) for s > 0
JOIN_OPS = {"aten.cat", "aten.stack"}
SCALE_OPS = {"aten.mul", "aten.div"}
COMPARE_OPS = {"aten.lt", "aten.gt", "aten.le", "aten.ge", "aten.eq", "aten.ne"}
CONTRACT_OPS = {"aten.mm", "aten.bmm", "aten.matmul", "aten.dot", "aten.mv"}
REQUANT_OPS = {"aten._softmax", "aten.where"}
PREDICATE_OPS = {"aten.is_same_size"}
COPY_OPS = {"aten.copy_"}
NONHOM_OPS = {  # neither movement nor homogeneous: raw codes cannot stand for values
    "aten.add", "aten.sub", "aten.sum", "aten.mean", "aten.gelu", "aten.sigmoid", "aten.tanh", "aten.silu", "aten.masked_fill",
    "aten.addmm", "aten.linear", "aten.index_select",
    # ops that bring in values which are not divided by the scale (fills, pads), or that are not positively homogeneous of degree one
    "aten.constant_pad_nd", "aten.fill", "aten.fill_", "aten.index_fill", "aten.index_put", "aten.scatter", "aten.masked_scatter", "aten.full_like",
    "aten.ones_like", "aten.clamp", "aten.clamp_min", "aten.clamp_max", "aten.hardtanh", "aten.pow", "aten.exp", "aten.log", "aten.sqrt", "aten.rsqrt",
    "aten.reciprocal", "aten.round", "aten.floor", "aten.ceil", "aten.trunc", "aten.cumsum", "aten.var", "aten.std", "aten.norm", "aten.softplus",
    "aten.erf", "aten.native_layer_norm", "aten.layer_norm", "aten.convolution", "aten.conv2d", "aten.log_softmax", "aten._log_softmax", "aten.sign",
}
KNOWN_OPS = MOVE_OPS | PRESERVE_OPS | EWHOM_OPS | JOIN_OPS | SCALE_OPS | COMPARE_OPS | CONTRACT_OPS | REQUANT_OPS | PREDICATE_OPS | COPY_OPS | NONHOM_OPS
# ops without a float8 CPU kernel (the repo's own comments for neg/relu/cat; lt/mm/bmm confirmed on torch 2.14)
NO_FLOAT8 = {"aten.neg", "aten.relu", "aten.abs", "aten.cat", "aten.lt", "aten.gt", "aten.le", "aten.ge", "aten.eq", "aten.ne", "aten.mm", "aten.bmm"}


class _StripClone(ast.NodeTransformer):
    """x.clone() / torch.clone(x) -> x: a clone has the values, the dtype and the graph of its source; only the storage is new."""

    def visit_Call(self, node):
        self.generic_visit(node)
        f = node.func
        if isinstance(f, ast.Attribute) and f.attr == "clone" and not node.args and not node.keywords:
            return f.value
        if isinstance(f, ast.Attribute) and f.attr == "clone" and isinstance(f.value, ast.Name) and f.value.id == "torch" and len(node.args) == 1 and not node.keywords:
            return node.args[0]
        return node


def ctor_fields(repo: Repo, cls_name: str, call: ast.Call, raw: bool = False) -> Optional[Dict[str, ast.AST]]:
    """The constructor arguments of `call` by field.  Unless `raw`, clones are read as their source (`t._scale.clone()` is `t._scale` for every rule
    about values, layouts and gradients); the rules about storage identity (who shares a scale or payload OBJECT with whom) ask for the raw fields."""
    if not raw:
        import copy as _copy
        f = ctor_fields(repo, cls_name, call, raw=True)
        if f is None:
            return None
        return {k: (ast.fix_missing_locations(_StripClone().visit(_copy.deepcopy(v))) if isinstance(v, ast.AST) else v) for k, v in f.items()}
    ci = repo.cls(cls_name)
    m = repo.method(ci, "__init__")
    if m is None:
        raise AnalysisError(f"{cls_name}.__init__ not found")
    f = bind_call(m[1], call, skip_first=1)
    if f is None:
        return None
    # a field computed through a forwarding helper (`_scale_op(op, t._scale, dtype=dtype, **kwargs)`) is the call the helper makes
    from .kwprof import expand_forwarders
    from . import core

    def res(name):
        for mi in repo.modules.values():
            if mi.rel.startswith("optimum/quanto/tensor"):
                r = repo.resolve(mi, name)
                if r is not None and isinstance(r[1], ast.FunctionDef) and r[0].rel.startswith("optimum/"):
                    return r[1]
        return None
    return {k: (expand_forwarders(v, res) if isinstance(v, ast.AST) and any(isinstance(c, ast.Call) and isinstance(c.func, ast.Name) and c.func.id.startswith("_") for c in ast.walk(v)) else v) for k, v in f.items()}


def is_ctor(e, names=("QBytesTensor",)) -> bool:
    return isinstance(e, ast.Call) and isinstance(e.func, ast.Name) and e.func.id in names


def data_of(x: str) -> str:
    return f"{x}._data"


@dataclass
class HPath:
    """One path of a handler with its facts."""
    h: Handler
    p: Path
    facts: Dict[str, bool] = field(default_factory=dict)

    def fact(self, text):
        return self.facts.get(text)


def handler_paths(h: Handler) -> List[HPath]:
    from .core import path_facts

    out = []
    for p in paths_of(h.fn):
        hp = HPath(h, p)
        hp.facts = path_facts(p)
        out.append(hp)
    return out


def rest_args_match(call: ast.Call, fn: ast.FunctionDef, first_arg_ok, n_lead: int = 1) -> bool:
    """op(<lead>, *rest) where rest are exactly the handler's remaining parameters, in order, unmodified."""
    params = positional_params(fn)[1 + n_lead:]
    want = [("name", p) for p in params]
    if fn.args.vararg is not None:
        want.append(("star", ("name", fn.args.vararg.arg)))
    got = [N(a) for a in call.args[n_lead:]]
    kw_want = {}
    if fn.args.kwarg is not None:
        kw_want["**"] = ("name", fn.args.kwarg.arg)
    kw_got = {(k.arg or "**"): N(k.value) for k in call.keywords}
    # parameters may be passed by keyword instead of by position
    merged = list(got)
    for p in params[len(got):]:
        if p in kw_got:
            merged.append(kw_got.pop(p))
    return merged == want and kw_got == kw_want
