"""Statement-level desugaring applied to every module right after parsing.

The rules are written against one spelling of each construct.  The rewrites below are behaviour-preserving for the analysed
properties and keep the line numbers of the statements they come from:

  * `(x := e)` in the header expression of a simple statement or of an `if` test is hoisted to `x = e` in front of it (only when
    the walrus is the first thing the expression evaluates, or `e` contains no call);
  * `T.update({k: v for k in it})`            ->  `for k in it: T[k] = v`
  * `{k: v for n in [literal, ...]}`          ->  the dict literal
  * `a, b = (x1, y1) if c else (x2, y2)`      ->  `if c: a, b = x1, y1` / `else: a, b = x2, y2`
  * `logger.debug(...)` (any method of a module-level `logging.getLogger(...)` object) and `del name` are dropped.
"""
from __future__ import annotations

import ast
import copy
from typing import List

LOG_METHODS = {"debug", "info", "warning", "warn", "error", "exception", "critical", "log"}


def _has_call(e) -> bool:
    return any(isinstance(n, (ast.Call, ast.Await, ast.Yield, ast.YieldFrom)) for n in ast.walk(e))


def _first_evaluated(e):
    """Chain of nodes from `e` down to the sub-expression that is evaluated first."""
    chain = [e]
    while True:
        if isinstance(e, ast.BoolOp):
            e = e.values[0]
        elif isinstance(e, ast.Compare):
            e = e.left
        elif isinstance(e, ast.BinOp):
            e = e.left
        elif isinstance(e, ast.UnaryOp):
            e = e.operand
        elif isinstance(e, ast.IfExp):
            e = e.test
        elif isinstance(e, ast.Call):
            e = e.func
        elif isinstance(e, (ast.Attribute, ast.Subscript, ast.Starred)):
            e = e.value
        elif isinstance(e, (ast.Tuple, ast.List)) and e.elts:
            e = e.elts[0]
        else:
            return chain
        chain.append(e)


class _Walrus(ast.NodeTransformer):
    """Replace hoistable NamedExpr nodes by their target name; the hoisted assignments are collected in order."""

    def __init__(self, first_ids):
        self.first_ids = first_ids
        self.hoisted: List[ast.Assign] = []
        self.blocked = False

    def visit_NamedExpr(self, node):
        node.value = self.visit(node.value)
        if self.blocked or not isinstance(node.target, ast.Name):
            return node
        if id(node) in self.first_ids or not _has_call(node.value):
            a = ast.Assign(targets=[ast.Name(id=node.target.id, ctx=ast.Store())], value=node.value)
            ast.copy_location(a, node)
            self.hoisted.append(a)
            return ast.copy_location(ast.Name(id=node.target.id, ctx=ast.Load()), node)
        # a later walrus may depend on this one being evaluated: stop hoisting past it
        self.blocked = True
        return node

    def _scoped(self, node):
        return node  # comprehensions and lambdas evaluate lazily / repeatedly: never hoist out of them

    visit_Lambda = visit_ListComp = visit_SetComp = visit_DictComp = visit_GeneratorExp = _scoped


def _hoist(expr):
    if expr is None or not any(isinstance(n, ast.NamedExpr) for n in ast.walk(expr)):
        return expr, []
    w = _Walrus({id(n) for n in _first_evaluated(expr)})
    new = w.visit(expr)
    return new, w.hoisted


def _expand_comp(node):
    """[f(n) for n in (literal, ...)] -> [f(literal), ...] (elements), or None."""
    if isinstance(node, (ast.ListComp, ast.GeneratorExp)) and len(node.generators) == 1:
        g = node.generators[0]
        if not g.ifs and not g.is_async and isinstance(g.target, ast.Name) and isinstance(g.iter, (ast.List, ast.Tuple)) and 0 < len(g.iter.elts) <= 8 and all(isinstance(e, (ast.Constant, ast.Name, ast.Attribute)) for e in g.iter.elts):
            return [_subst_name(node.elt, g.target.id, e) for e in g.iter.elts]
    return None


class _Expr(ast.NodeTransformer):
    def visit_ListComp(self, node):
        self.generic_visit(node)
        elts = _expand_comp(node)
        if elts is not None:
            return ast.copy_location(ast.List(elts=elts, ctx=ast.Load()), node)
        return node

    def visit_DictComp(self, node):
        self.generic_visit(node)
        if len(node.generators) == 1:
            g = node.generators[0]
            if not g.ifs and not g.is_async and isinstance(g.target, ast.Name) and isinstance(g.iter, (ast.List, ast.Tuple)) and g.iter.elts and all(isinstance(e, ast.Constant) for e in g.iter.elts):
                keys, vals = [], []
                for e in g.iter.elts:
                    keys.append(_subst_name(node.key, g.target.id, e))
                    vals.append(_subst_name(node.value, g.target.id, e))
                return ast.copy_location(ast.Dict(keys=keys, values=vals), node)
        return node


def _subst_name_stmt(stmt, name, value):
    class S(ast.NodeTransformer):
        def visit_Name(self, n):
            if n.id == name and isinstance(n.ctx, ast.Load):
                return copy.deepcopy(value)
            return n

    return S().visit(stmt)


def _subst_name(expr, name, value):
    class S(ast.NodeTransformer):
        def visit_Name(self, n):
            if n.id == name and isinstance(n.ctx, ast.Load):
                return copy.deepcopy(value)
            return n

    return S().visit(copy.deepcopy(expr))


class Desugar:
    def __init__(self, tree: ast.Module):
        self.loggers = set()
        for n in tree.body:
            if isinstance(n, ast.Assign) and isinstance(n.value, ast.Call):
                f = n.value.func
                fn = ast.unparse(f)
                if fn in ("logging.getLogger", "getLogger", "logging.get_logger", "get_logger"):
                    for t in n.targets:
                        if isinstance(t, ast.Name):
                            self.loggers.add(t.id)

    def run(self, tree: ast.Module) -> ast.Module:
        tree.body = self.body(tree.body)
        return ast.fix_missing_locations(tree)

    def body(self, stmts) -> list:
        out = []
        stmts = self._append_loops(list(stmts))
        for st in stmts:
            out.extend(self.stmt(st))
        if not out and stmts:
            out = [ast.copy_location(ast.Pass(), stmts[0])]
        return out

    @staticmethod
    def _append_loops(stmts):
        """x = []; for v in it: x.append(e)  ->  x = [e for v in it]"""
        out, i = [], 0
        while i < len(stmts):
            a = stmts[i]
            b = stmts[i + 1] if i + 1 < len(stmts) else None
            if (isinstance(a, ast.Assign) and len(a.targets) == 1 and isinstance(a.targets[0], ast.Name) and isinstance(a.value, ast.List) and not a.value.elts
                    and isinstance(b, ast.For) and not b.orelse and len(b.body) == 1 and isinstance(b.body[0], ast.Expr) and isinstance(b.body[0].value, ast.Call)
                    and isinstance(b.body[0].value.func, ast.Attribute) and b.body[0].value.func.attr == "append" and isinstance(b.body[0].value.func.value, ast.Name)
                    and b.body[0].value.func.value.id == a.targets[0].id and len(b.body[0].value.args) == 1 and not b.body[0].value.keywords):
                comp = ast.ListComp(elt=b.body[0].value.args[0], generators=[ast.comprehension(target=b.target, iter=b.iter, ifs=[], is_async=0)])
                out.append(ast.copy_location(ast.Assign(targets=a.targets, value=ast.copy_location(comp, b)), a))
                i += 2
                continue
            out.append(a)
            i += 1
        return out

    @staticmethod
    def _bind_target(target, item):
        if isinstance(target, ast.Name):
            return {target.id: item}
        if isinstance(target, (ast.Tuple, ast.List)) and isinstance(item, (ast.Tuple, ast.List)) and len(item.elts) == len(target.elts) and all(isinstance(t, ast.Name) for t in target.elts):
            return {t.id: v for t, v in zip(target.elts, item.elts)}
        return None

    def unroll(self, st: ast.For):
        """`for v in (a, b): body` -> body[a]; body[b] when the body neither rebinds v nor breaks/continues;
        `for v in (a, b): if c(v): S; break` (+ else: E) -> if c(a): S[a] elif c(b): S[b] else: E."""
        envs = [self._bind_target(st.target, it) for it in st.iter.elts]
        if any(e is None for e in envs):
            return None
        names = set(envs[0])
        body = st.body

        def rebinds(stmts):
            for n in ast.walk(ast.Module(body=list(stmts), type_ignores=[])):
                if isinstance(n, ast.Name) and isinstance(n.ctx, (ast.Store, ast.Del)) and n.id in names:
                    return True
                if isinstance(n, (ast.FunctionDef, ast.Lambda, ast.ClassDef)):
                    return True
            return False

        def has(stmts, kinds):
            return any(isinstance(n, kinds) for s_ in stmts for n in ast.walk(s_))

        def inst(stmts, env):
            out = []
            for s_ in stmts:
                c = copy.deepcopy(s_)
                for k, v in env.items():
                    c = _subst_name_stmt(c, k, v)
                out.append(c)
            return out

        if rebinds(body):
            return None
        if not has(body, (ast.Break, ast.Continue)) and not st.orelse:
            out = []
            for env in envs:
                out.extend(inst(body, env))
            return out
        # search form: a single `if` whose body ends with break
        if len(body) == 1 and isinstance(body[0], ast.If) and not body[0].orelse and body[0].body and isinstance(body[0].body[-1], ast.Break) \
                and not has(body[0].body[:-1], (ast.Break, ast.Continue)):
            chain = list(st.orelse)
            for env in reversed(envs):
                ifs = inst([body[0]], env)[0]
                ifs.body = ifs.body[:-1] or [ast.copy_location(ast.Pass(), st)]
                ifs.orelse = chain
                chain = [ifs]
            return chain
        return None

    def stmt(self, st) -> list:
        # recurse into compound statements first
        for field in ("body", "orelse", "finalbody"):
            b = getattr(st, field, None)
            if isinstance(b, list) and b and isinstance(b[0], ast.stmt):
                setattr(st, field, self.body(b))
        if isinstance(st, ast.Try):
            for h in st.handlers:
                h.body = self.body(h.body)
        if isinstance(st, (ast.Match,)) if hasattr(ast, "Match") else False:
            for c in st.cases:
                c.body = self.body(c.body)
        pre: list = []
        # dropped statements
        if isinstance(st, ast.Delete) and all(isinstance(t, ast.Name) for t in st.targets):
            return []
        if isinstance(st, ast.Expr) and isinstance(st.value, ast.Call) and isinstance(st.value.func, ast.Attribute) and st.value.func.attr in LOG_METHODS \
                and isinstance(st.value.func.value, ast.Name) and st.value.func.value.id in self.loggers:
            return []
        # iterating over a copy of a table (`for k in list(TABLE)` / `dict(TABLE)` / `tuple(TABLE)`) visits the same keys in the same order
        if isinstance(st, ast.For) and isinstance(st.iter, ast.Call) and isinstance(st.iter.func, ast.Name) and st.iter.func.id in ("list", "tuple", "dict") \
                and len(st.iter.args) == 1 and not st.iter.keywords and isinstance(st.iter.args[0], ast.Name) and st.iter.args[0].id.isupper():
            st.iter = st.iter.args[0]
        # setattr(x, "name", v) as a statement is the assignment x.name = v
        if isinstance(st, ast.Expr) and isinstance(st.value, ast.Call) and isinstance(st.value.func, ast.Name) and st.value.func.id == "setattr" and len(st.value.args) == 3 \
                and not st.value.keywords and isinstance(st.value.args[1], ast.Constant) and isinstance(st.value.args[1].value, str) and st.value.args[1].value.isidentifier():
            tgt = ast.Attribute(value=st.value.args[0], attr=st.value.args[1].value, ctx=ast.Store())
            st = ast.copy_location(ast.Assign(targets=[tgt], value=st.value.args[2]), st)
            ast.fix_missing_locations(st)
        # walrus hoisting out of header expressions
        if isinstance(st, (ast.If,)):
            st.test, pre = _hoist(st.test)
        elif isinstance(st, (ast.Assign, ast.AnnAssign, ast.AugAssign, ast.Return, ast.Expr)) and getattr(st, "value", None) is not None:
            st.value, pre = _hoist(st.value)
        elif isinstance(st, ast.Assert):
            st.test, pre = _hoist(st.test)
        # expression-level rewrites
        if not isinstance(st, (ast.FunctionDef, ast.AsyncFunctionDef, ast.ClassDef)):
            for field, val in ast.iter_fields(st):
                if isinstance(val, ast.expr):
                    setattr(st, field, _Expr().visit(val))
        for a in pre:
            a.value = _Expr().visit(a.value)
        # loops over a short literal sequence
        if isinstance(st, ast.For) and isinstance(st.iter, (ast.Tuple, ast.List)) and 0 < len(st.iter.elts) <= 4 and not any(isinstance(e, ast.Starred) for e in st.iter.elts):
            un = self.unroll(st)
            if un is not None:
                return pre + un
        # for k, (a, b) in D.items(): ...  ->  for k in D: a, b = D[k]; ...
        if isinstance(st, ast.For) and isinstance(st.target, ast.Tuple) and len(st.target.elts) == 2 and isinstance(st.target.elts[0], ast.Name) and isinstance(st.target.elts[1], (ast.Tuple, ast.List)) \
                and isinstance(st.iter, ast.Call) and isinstance(st.iter.func, ast.Attribute) and st.iter.func.attr == "items" and not st.iter.args and isinstance(st.iter.func.value, (ast.Name, ast.Attribute)):
            d = st.iter.func.value
            k = st.target.elts[0]
            get = ast.Subscript(value=copy.deepcopy(d), slice=ast.Name(id=k.id, ctx=ast.Load()), ctx=ast.Load())
            asg = ast.copy_location(ast.Assign(targets=[st.target.elts[1]], value=get), st)
            st.target = k
            st.iter = d
            st.body = [asg] + st.body
            return pre + [st]
        # T.update({k: v for k in it}) -> for k in it: T[k] = v
        if isinstance(st, ast.Expr) and isinstance(st.value, ast.Call) and isinstance(st.value.func, ast.Attribute) and st.value.func.attr == "update" \
                and len(st.value.args) == 1 and not st.value.keywords and isinstance(st.value.args[0], ast.DictComp) and len(st.value.args[0].generators) == 1:
            dc = st.value.args[0]
            g = dc.generators[0]
            if not g.ifs and not g.is_async:
                tgt = ast.Subscript(value=st.value.func.value, slice=dc.key, ctx=ast.Store())
                asg = ast.copy_location(ast.Assign(targets=[tgt], value=dc.value), st)
                loop = ast.copy_location(ast.For(target=g.target, iter=g.iter, body=[asg], orelse=[]), st)
                return pre + [loop]
        # a, b, c = (f(n) for n in ("x", "y", "z"))  ->  a, b, c = f("x"), f("y"), f("z")
        if isinstance(st, ast.Assign) and len(st.targets) == 1 and isinstance(st.targets[0], (ast.Tuple, ast.List)) and isinstance(st.value, ast.GeneratorExp):
            elts = _expand_comp(st.value)
            if elts is not None and len(elts) == len(st.targets[0].elts):
                st.value = ast.copy_location(ast.Tuple(elts=elts, ctx=ast.Load()), st.value)
        # a, b = (x1, y1) if c else (x2, y2)
        if isinstance(st, ast.Assign) and len(st.targets) == 1 and isinstance(st.targets[0], (ast.Tuple, ast.List)) and isinstance(st.value, ast.IfExp):
            v = st.value
            n = len(st.targets[0].elts)
            if all(isinstance(x, (ast.Tuple, ast.List)) and len(x.elts) == n for x in (v.body, v.orelse)):
                a1 = ast.copy_location(ast.Assign(targets=[copy.deepcopy(st.targets[0])], value=v.body), st)
                a2 = ast.copy_location(ast.Assign(targets=[copy.deepcopy(st.targets[0])], value=v.orelse), st)
                return pre + [ast.copy_location(ast.If(test=v.test, body=[a1], orelse=[a2]), st)]
        return pre + [st]


def desugar_module(tree: ast.Module) -> ast.Module:
    try:
        return Desugar(tree).run(tree)
    except RecursionError:
        return tree
