"""E7: mini-parser for the native unpack kernels (C++ / CUDA / Metal host code).

Per `unpack_<b>bit` function it extracts the ordered list of fields (mask, right shift, output slot) and the
switch(bits) routing.  A field table determines the kernel's result for all 256 byte values.
"""
from __future__ import annotations

import os
import re
from typing import Dict, List, Optional, Tuple

from .core import AnalysisError


def strip_comments(src: str) -> str:
    src = re.sub(r"/\*.*?\*/", " ", src, flags=re.S)
    src = re.sub(r'R"([A-Za-z_&]*)\(.*?\)\1"', '""', src, flags=re.S)  # raw string literals (Metal shader source)
    src = re.sub(r"//[^\n]*", "", src)
    return src


def function_bodies(src: str) -> Dict[str, str]:
    """name -> body text for every function definition at brace depth 0"""
    out = {}
    for m in re.finditer(r"([A-Za-z_][\w:<>&\*\s]*?)\b([A-Za-z_]\w*)\s*\(([^;{}()]|\([^()]*\))*\)\s*\{", src):
        name = m.group(2)
        if name in ("if", "for", "while", "switch", "return"):
            continue
        i = m.end()
        depth = 1
        j = i
        while j < len(src) and depth:
            if src[j] == "{":
                depth += 1
            elif src[j] == "}":
                depth -= 1
            j += 1
        out.setdefault(name, src[i:j - 1])
    return out


def _int(s: str) -> int:
    return int(s, 16) if s.lower().startswith("0x") else int(s)


FIELD = r"\(\s*\w+(?:\[\w+\])?\s*&\s*(0x[0-9A-Fa-f]+|\d+)\s*\)\s*(?:\.\s*__rshift__\s*\(\s*(\d+)\s*\)|>>\s*(\d+))?"


def fields_of(body: str, helper_bodies: Dict[str, str]) -> Optional[List[Tuple[int, int, int]]]:
    """ordered (mask, shift, slot) list of an unpack_<b>bit function body"""
    # (1) torch::cat({ (t & M), (t & M).__rshift__(S), ... }, 0)
    m = re.search(r"cat\s*\(\s*\{(.*?)\}\s*,\s*(\d+)\s*\)", body, flags=re.S)
    if m and re.search(FIELD, m.group(1)):
        if _int(m.group(2)) != 0:
            raise AnalysisError("native unpack concatenates along a dim other than 0")
        out = []
        for slot, fm in enumerate(re.finditer(FIELD, m.group(1))):
            out.append((_int(fm.group(1)), _int(fm.group(2) or fm.group(3) or "0"), slot))
        return out
    # (2) mask_and_shift(input, outK, M, S); ... cat({out, out1, ...}, 0)
    calls = re.findall(r"mask_and_shift\s*\(\s*\w+\s*,\s*(\w+)\s*,\s*(0x[0-9A-Fa-f]+|\d+)\s*,\s*(\d+)\s*\)", body)
    if calls and m:
        order = [x.strip() for x in m.group(1).split(",")]
        if _int(m.group(2)) != 0:
            raise AnalysisError("native unpack concatenates along a dim other than 0")
        out = []
        for var, mask, sh in calls:
            if var not in order:
                raise AnalysisError(f"native unpack: buffer {var} is not concatenated")
            out.append((_int(mask), _int(sh), order.index(var)))
        return sorted(out, key=lambda t: t[2])
    # (3) a kernel launch: fields live in the __global__ kernel: output[i + n*k] = (input[i] & M) >> S;
    km = re.search(r"(\w+)\s*<<<", body)
    if km and km.group(1) in helper_bodies:
        kb = helper_bodies[km.group(1)]
        out = []
        for sm in re.finditer(r"output\s*\[\s*i\s*(?:\+\s*n\s*(?:\*\s*(\d+))?)?\s*\]\s*=\s*" + FIELD + r"\s*;", kb):
            whole = sm.group(0)
            if re.match(r"output\s*\[\s*i\s*\]", whole):
                slot = 0
            else:
                slot = _int(sm.group(1)) if sm.group(1) else 1
            out.append((_int(sm.group(2)), _int(sm.group(3) or sm.group(4) or "0"), slot))
        return sorted(out, key=lambda t: t[2]) or None
    return None


def routing(body: str) -> Dict[int, str]:
    out = {}
    for m in re.finditer(r"case\s+(\d+)\s*:\s*return\s+(\w+)\s*\(", body):
        out[int(m.group(1))] = m.group(2)
    return out


def analyse_file(path: str):
    """returns {bits: [(mask, shift, slot)...]} following the switch(bits) routing of `unpack`"""
    src = strip_comments(open(path, encoding="utf-8", errors="replace").read())
    bodies = function_bodies(src)
    if "unpack" not in bodies:
        raise AnalysisError(f"{os.path.basename(path)}: entry point unpack(...) not found")
    route = routing(bodies["unpack"])
    if not route:
        raise AnalysisError(f"{os.path.basename(path)}: switch(bits) routing not found")
    res = {}
    for bits, fname in route.items():
        if fname not in bodies:
            raise AnalysisError(f"{os.path.basename(path)}: {fname} not found")
        f = fields_of(bodies[fname], bodies)
        if not f:
            raise AnalysisError(f"{os.path.basename(path)}: no field table extracted from {fname}")
        res[bits] = (fname, f)
    checks = {
        "uint8_check": bool(re.search(r"scalar_type\(\)\s*==\s*torch::kUInt8", bodies["unpack"])),
        "default_throws": bool(re.search(r"default\s*:\s*throw", bodies["unpack"])),
    }
    return res, checks
