"""Pipeline typestate of the quantizers (C01/C02/C16): peel the stages of the payload term."""
from __future__ import annotations

import ast
from typing import List, Optional, Tuple

from .core import Repo, U, inline
from .scales import storage_max_of

ROUNDERS = {"round": "nearest", "floor": "floor", "ceil": "ceil", "trunc": "trunc", "fix": "trunc", "int": "trunc", "floor_divide": "floor"}


def _torch_or_method(e: ast.AST, names) -> Optional[Tuple[str, ast.AST, list, dict]]:
    """(name, first operand, other positional args, keywords) for torch.f(x, ...) or x.f(...)"""
    if not (isinstance(e, ast.Call) and isinstance(e.func, ast.Attribute)):
        return None
    name = e.func.attr
    if name not in names:
        return None
    kw = {k.arg: k.value for k in e.keywords}
    if U(e.func.value) == "torch":
        if not e.args:
            return None
        return name, e.args[0], list(e.args[1:]), kw
    return name, e.func.value, list(e.args), kw


def peel(e: ast.AST) -> List[tuple]:
    """Outermost-first list of stages: ('cast', target) ('clamp', lo, hi) ('round', kind) ('nan_to_num', kw) ('where', cond, a, b)
    ('add', other) ('sub', other) ('mul', other) ('div', num, den) ('leaf', expr)."""
    out = []
    while True:
        m = _torch_or_method(e, {"to", "type"})
        if m and len(m[2]) + len(m[3]) >= 1:
            tgt = m[2][0] if m[2] else m[3].get("dtype")
            out.append(("cast", tgt))
            e = m[1]
            continue
        m = _torch_or_method(e, {"clamp", "clip", "clamp_", "clip_"})
        if m:
            lo = m[2][0] if len(m[2]) > 0 else m[3].get("min")
            hi = m[2][1] if len(m[2]) > 1 else m[3].get("max")
            out.append(("clamp", lo, hi))
            e = m[1]
            continue
        m = _torch_or_method(e, set(ROUNDERS) | {"round_"})
        if m and not m[2]:
            if m[3].get("decimals") is not None:
                out.append(("round", "decimals"))
            else:
                out.append(("round", ROUNDERS.get(m[0].rstrip("_"), "?")))
            e = m[1]
            continue
        m = _torch_or_method(e, {"nan_to_num", "nan_to_num_"})
        if m:
            kw = dict(m[3])
            for i, a in enumerate(m[2]):
                kw[("nan", "posinf", "neginf")[i]] = a
            out.append(("nan_to_num", kw))
            e = m[1]
            continue
        if isinstance(e, ast.Call) and U(e.func) == "torch.where" and len(e.args) == 3:
            out.append(("where", e.args[0], e.args[1], e.args[2]))
            # continue into the branch that holds the quotient
            a, b = e.args[1], e.args[2]
            e = a if any(isinstance(n, ast.BinOp) and isinstance(n.op, ast.Div) for n in ast.walk(a)) or "div" in U(a) else b
            continue
        m = _torch_or_method(e, {"div", "true_divide", "divide"})
        if m and len(m[2]) == 1:
            out.append(("div", m[1], m[2][0], m[3].get("rounding_mode")))
            return out
        if isinstance(e, ast.BinOp):
            if isinstance(e.op, ast.Div):
                out.append(("div", e.left, e.right, None))
                return out
            if isinstance(e.op, ast.FloorDiv):
                out.append(("round", "floor"))
                out.append(("div", e.left, e.right, None))
                return out
            if isinstance(e.op, (ast.Add, ast.Sub, ast.Mult)):
                kind = {ast.Add: "add", ast.Sub: "sub", ast.Mult: "mul"}[type(e.op)]
                # the pipeline continues in the operand that contains the division
                l_has = any(isinstance(n, ast.BinOp) and isinstance(n.op, (ast.Div, ast.FloorDiv)) for n in ast.walk(e.left)) or ".div(" in U(e.left)
                out.append((kind, e.right if l_has else e.left, "right" if l_has else "left"))
                e = e.left if l_has else e.right
                continue
        out.append(("leaf", e))
        return out


def stage_names(stages) -> List[str]:
    return [s[0] if s[0] != "round" else f"round:{s[1]}" for s in stages]


def is_storage_bound(repo: Repo, mi, e: ast.AST, which: str, dtype_text: str, fp=None) -> bool:
    """`e` is the min/max of the storage range of `dtype_text`; on a path whose family is known (fp True: float8, False: int8)
    torch.finfo(X) / torch.iinfo(X) alone is that range."""
    if e is None:
        return False
    e2 = inline(repo, mi, e)
    if not (isinstance(e2, ast.Attribute) and e2.attr == which):
        return False
    if storage_max_of(e2) == dtype_text:
        return True
    v = e2.value
    if fp is not None and isinstance(v, ast.Call) and len(v.args) == 1 and not v.keywords and U(v.args[0]) == dtype_text:
        return U(v.func) == ("torch.finfo" if fp else "torch.iinfo")
    return False


def is_zero_test(cond: ast.AST, scale_txt: str) -> Optional[bool]:
    """True if cond is `scale == 0`, False if `scale != 0` (polarity of 'scale is zero'), None otherwise."""
    if isinstance(cond, ast.Compare) and len(cond.ops) == 1 and U(cond.left) == scale_txt and isinstance(cond.comparators[0], ast.Constant) and cond.comparators[0].value in (0, 0.0):
        if isinstance(cond.ops[0], ast.Eq):
            return True
        if isinstance(cond.ops[0], ast.NotEq):
            return False
    return None
