# executed by gen_manifest.py
NOTE = "Decides the listed structural clauses only (each a necessary condition of the behaviour); trusted: python ast, the qv engines, tables of torch/aten semantics named in the evidence assumptions. Float tolerances and kernel arithmetic are not decided."
CLAIMED = {
    "C05": ("DESIGN.md §3 C05", "per-handler path enumeration + operand-kind typestate + scale-algebra term matching over the aten dispatch tables",
            "static analysis: for every registered aten handler and every path, the (payload, scale) terms, guards, fallbacks and refusals are checked against the algebraic class of the op; an induction step over op programs of any depth", NOTE),
    "C06": ("DESIGN.md §3 C06", "term provenance of size/stride/qtype/axis in every quantized-tensor construction; wrapper-constructor and flatten/unflatten agreement checks",
            "static analysis: every construction site of a quantized tensor (handlers, moves, quantizers, wrappers, unflatten) carries geometry and fields from the payload it wraps", NOTE),
    "C12": ("DESIGN.md §3 C12", "value provenance (def-use) of the momentum and buffers in the calibration hooks + polynomial normal form of the EMA term",
            "static analysis: the momentum reaching each update is self.momentum (single definition), the EMA helper is the required polynomial, both hooks measure the right tensor with absmax_scale and store into the matching buffer: covers every batch history", NOTE),
    "C13": ("DESIGN.md §3 C13", "acquire/release pairing over all paths of __enter__/__exit__, who-may-call check, whole-package call graph with external write-effect analysis from the inference and quantization entry points",
            "static analysis: every path of __exit__ releases every handle acquired by __enter__ regardless of exception arguments; no external write effect reachable from inference entry points; in-place tensor ops only on fresh values in the quantization closure", NOTE),
    "C10": ("DESIGN.md §3 C10", "writer/reader agreement over the flatten/unflatten/load paths (key sets, codecs), value-class analysis of stored values, data/control dependence for derived state, constant propagation into qcreate",
            "static analysis: every key written by the save paths is read back by the matching loader with an inverse codec; stored values are plain tensors or strings; state derived from weight_qtype is re-derived on load; requantize recreates every class quantize can create", NOTE),
    "C14": ("DESIGN.md §3 C14", "must-pass-through guards: path enumeration of every quantization entry point with unit propagation of guard facts; dominance of the group-size store by its divisibility test",
            "static analysis: every accepting path of quantize_weight / quantize_activation / the quantizers / group / the optimizers has established each guard of the validation matrix, rejections raise ValueError, the automatic group size is only produced under the divisibility test", NOTE),
}
PENDING = "rule set under construction in this session (fail-closed: not claimed until its check passes on the unchanged tree)"
NOT_APPLICABLE = {k: PENDING for k in ["C01","C02","C03","C04","C07","C08","C09","C11","C15","C16"]}
