#!/usr/bin/env python3
"""Prints the markdown table of DESIGN.md section 9 from /verif/seeded/*/meta.json, the output of tools/run_seeded.py
(a file given as argv[1], or run now) and the hand-kept notes below (what happened the first time each change met the checks)."""
import glob, json, os, subprocess, sys

HERE = os.path.dirname(os.path.dirname(os.path.abspath(__file__)))

# first encounter: "first" = reported by the rule as it stood; anything else = what had to change
FIRST = {
    "C15-51": "first (C15.R6: the scale converted back is not the transposed one)",
    "C09-51": "C04.R5 at once; **C09 missed**; the re-wrap clause of C04.R5 (detach / clone / move of the packed payload keep bits, size, stride) is now composed into C09.R7 and C06.R1 (`report.TagFilteredAlias`) - deepcopy and Module.to of a frozen low-bit weight run exactly these handlers",
    "C03-51": "**undecided** (exit 2, C03.R1/R2 name the numerator `base.abs().flatten(0, 1).amax(dim=0, keepdim=True).reshape(..)` as outside the reduction vocabulary): the rule folds amax/amin dims but not shapes through flatten/reshape; no violation is claimed for a construct it cannot evaluate, and the run does not pass; **then decided**: shape domain `scales.shape_eval` added to C03.R1/R2",
    "C03-2": "**missed at first**; scale-floor rule added (C03.R3, also C12.R5 / C02.R6)",
    "C02-1": "**missed at first**; scale-floor clause added to C02.R6",
    "C02-2": "**missed at first**; `requested_config` rule added (C02.R1 / C14.R1): the configuration handed to the quantizer is the one requested",
    "C05-1": "**missed at first**; helper-predicate rule C05.R13 added",
    "C06-1": "**missed at first**; C06.R8 added",
    "C06-2": "C05 at once; **C06 missed at first**; C06.R8 added",
    "C07-1": "**missed at first** (interpreter crash, then outside the rule's domain); C07.R3 widened to the (scale, activation, weight) dtype table - which exposed F18b",
    "C08-2": "**missed at first**; recursive-walk rule C08.R5 added; exposed a path-engine bug (`break/continue` did not end a loop-body path)",
    "C13-1": "**missed at first**; exception-safety clause added to C13.R1",
    "C14-2": "**missed at first** (rule accepted `numel` alone); alternative removed",
    "C16-2": "**missed at first**; clamped-zero-point rule added (C02.R5 / C16.R3)",
    "C15-2": "**missed at first**; wrapper-delegation rule C15.R8 added",
    "C05-4": "C07.R3 at once after the dtype-condition evaluator learnt `dtype.itemsize` (exit 2 before); **C05 missed**; contraction clause C05.R15 added",
    "C08-3": "C09/C11/C13 at once; **C08 missed**; weight-source rule C08.R7 added (shared with C09.R2/R3)",
    "C13-3": "**missed at first**; handlers registered for in-place aten ops now yield a write effect on `op(x, ..)` (C13.R3)",
    "C10-4": "**missed at first**; assign-mode clause added to C10.R9",
    "C07-3": "**missed at first**; single-rounding clause (accumulator narrowed while a payload is unscaled) added to the label typing",
    "C03-3": "**missed at first** (the wrapper rule accepted any term starting with `optimize(...)`); now the pair must be returned untouched",
    "C03-4": "exit 2 at first (checker crashed on an integer `dim`); now a violation of C03.R1",
    "C04-3": "reported at once (an internal error on the allocation-shape clause was made an undecided obligation)",
    "C09-4": "C06.R2 at once; **C09 missed**; lifecycle rule C09.R6 added (shares the C06 move/detach rule)",
    "C06-3": "C05.R4 at once; **C06 missed**; `copy_` scale-layout clause added to C06.R8",
    "C14-4": "C10.R6 at once; **C14 missed**; re-derivation clause added to C14.R3 (shared rule)",
    "C11-4": "reported at once (the site-count floor of C11.R4 was lowered from 4 to 2: merging identical branches is legitimate)",
    "C16-3": "C03.R2 at once (the same edit was seeded for C03); **C16 missed**; one-sided-rows rule C16.R5 added (shares the recogniser)",
    "C16-4": "exit 2 at first (zero-point not in the recognised form); overflow rule C16.R6 added - **which then reported F26 on the unchanged tree**",
    "C15-3": "reported by C15.R8 (added for C15-2 an hour earlier)",
    "C03-5": "**missed at first**: the symbolic group extent G*g never equals g; degenerate-extent instances (a dim equal to the group size, rank 2 and 3) added to the layout rule (C02.R4 / C03.R5)",
    "C05-5": "exit 2 at first (op outside the class table); the trusted table of aten op classes now lists fills / pads / non-homogeneous ops as such",
    "C06-5": "**missed at first**; constructor-field clause added to C06.R3 (every `__init__` of the tensor hierarchy stores its arguments unchanged)",
    "C08-6": "exit 2 at first; exact-class table lookups are now a violation of C08.R5",
    "C02-5": "exit 2 at first; a zero-point rounded by `+0.5` and a truncating cast is a violation of C02.R5 while the range excludes zero",
    "C07-5": "C05.R4 / C06 at once; **C07 missed**: the matmul guards trust `axis`; operand-invariant rule C07.R7 added (re-emits the axis/scale agreement obligations of every re-laying handler)",
    "C07-6": "exit 2 at first (the handler called the library kernel, unknown to the interpreter of handlers); the kernel is now bound there too",
    "C14-5": "C03 and C14 **both missed**: each side's `group(...)` call was right where it was made; grouping-condition rule added (grouped iff a group size is given, on every path of optimizer wrapper and quantizer; C03.R5 / C14.R1)",
    "C15-5": "**missed at first**; re-wrapping rule C15.R9 added (ops whose QBits handler rebuilds `t.__class__` must be ops under which the AWQ payload stays packed)",
    "C15-6": "exit 2 at first; a division by the stored scale in the AWQ dequantizer is a violation (C15.R5, C16.R4)",
    "C11-5": "**missed at first**; C11.R7 added (no raw payload in a backward contraction)",
    "C11-6": "**missed at first**; C11.R6 added (no gradient-mode context / detach on the dynamic weight path)",
    "C09-5": "C04.R3 at once; **C09 missed**; the packer rules are now re-checked under C09.R7 (rule composition)",
    "C09-6": "C05.R5 / C06.R8 at once; **C09 missed**; the 8-bit lifecycle handler rules are re-checked under C09.R7",
    "C16-5": "C02.R1 at once; **C16 missed**; the C01/C02 pipeline rules are re-checked under C16.R7 (the property refers to their bounds)",
    "C16-6": "C01.R1 at once; **C16 missed**; as C16-5",
    "C10-6": "C08.R7 / C09 / C11 / C13 at once; **C10 missed**; weight-source rule re-checked under C10.R10",
    "C06-4": "exit 2 at first (two return paths in `__tensor_unflatten__`); the reader is now analysed per path, codec verdicts count for C06.R5",
    # fourth round (-7 / -8)
    "C02-7": "**missed at first** (C04 too): `view` instead of `reshape` in `group()` only fails on a non-contiguous weight; view clause added to the layout rule (C02.R4) - and, generalised to every operand flattening (C07.R9, C11.R8), it reported **F27 / F28 on the unchanged tree**",
    "C02-8": "exit 2 at first under C02 (C16.R6 at once); the overflow rule is re-checked under C02.R8",
    "C03-7": "exit 2 at first; converse clause of C03.R6 added (a per-axis request becomes per-tensor only when the axis has one element)",
    "C03-8": "C12.R3 at once; **C03 missed**; the calibration scale rules are re-checked under C03.R7",
    "C04-7": "exit 2 at first (native field table not extracted); the native analyser now requires a contiguity guard before a raw storage read (C04.R1)",
    "C06-7": "C14.R1 at once; **C06 missed**; the guard rules are re-checked under C06.R9",
    "C06-8": "**missed at first** (C14 too); 0-dim clause added (a per-tensor scale is 0-dim on every construction path), C06.R9",
    "C07-7": "exit 2 at first (28 undecided obligations); the label typing now tracks stride-0 (`expand`ed) scales: handing one to `_weight_int8pack_mm` is a violation of C07.R1",
    "C07-8": "**missed at first** (C13 too): an augmented assignment through a local alias of a tensor field was not a write; now an in-place effect (C13.R3), re-checked under C07.R8",
    "C09-7": "C08.R6 at once; **C09 missed**; C09.R8 added (qtypes are compared by value: `deepcopy` duplicates them)",
    "C10-7": "C03.R7 / C12.R3 at once; **C10 missed**; C10.R11 added (every tensor a module puts in its state_dict is its own: scale buffers are freshly computed values, weights are copied)",
    "C12-8": "**missed at first**; `batch skipped` clause added to C12.R4 (every path of the calibration hooks that passes the guard updates the buffer)",
    "C13-7": "exit 2 at first (no handle attribute found); a container of handles is accepted when it belongs to the instance and reported when it is created in the class body (C13.R1)",
    "C15-7": "exit 2 at first (module-level name unknown to the column interpreter); purity rule C15.R12 added",
    "C15-8": "**missed at first**; C15.R11 added (every left shift of the packers applies to a value widened to 16 bits or more)",
    # fifth round (-9 / -10)
    "C02-9": "C13.R3 / C07.R8 at once; **C02 missed**; the purity rule is re-checked under C02.R9 (the bound holds for every dequantization, not the first)",
    "C03-9": "C12.R2 at once; **C03 missed**; C03.R8 added (no fixed-dtype conversion between the measured tensor and the scale buffer)",
    "C04-9": "exit 2 at first under C04 (C13.R3 at once); purity rule C04.R7 added (packer and python fallback use no module-level state and never write into their argument)",
    "C06-9": "**missed at first** by every property (C05 undecided): a payload built from several operands may be broadcast, so the wrapper's geometry must be the payload's own - decided under C06.R1 even where C05 cannot classify the op",
    "C07-10": "**missed at first** by every property; the accumulation table (C07.R3 / C05.R15) now also covers the casts in front of the mm / bmm handlers' contractions",
    "C08-10": "C07.R3 / C05.R15 at once; **C08 missed**; C08.R8 widened to C07.R3 / R5 / R10 (the four recorded kernel findings are listed under C08 as well)",
    "C09-9": "C03.R1 / C14.R5 at once; **C09 missed**; the reduction-dims rule is re-checked under C09.R7 (one scale per output index or group)",
    "C10-9": "C09.R1 / C13.R4 at once; **C10 missed**; clause added to C10.R2 (`frozen` is computed from the type of the weight the module holds, not a stored flag)",
    "C11-9": "C08.R4 / C10.R11 at once; **C11 missed**; the copy rule is re-checked under C11.R9",
    "C11-10": "**missed at first** by every property; C11.R6 extended to gradient-mode decorators and to the value the calibration hooks hand back to the model",
    "C13-10": "**missed at first** by every property; platform-table clause added to C13.R1 (a global forward hook registered `with_kwargs=True` leaves an entry in a table its handle does not clean)",
    "C14-9": "C06.R9 at once; **C14 missed**; the 0-dim clause is re-checked under C14.R5",
    "C15-9": "**missed at first** (C06 / C10 undecided: one flatten class fewer); inherited-reader rule (a subclass with its own constructor must not inherit a reader that names its base) under C06.R5 / C10.R1 and the new C15.R13 - under which the Enum codec of `AWQPackedTensor` became **finding F38**",
    "C16-9": "C07.R2 / C05.R14 / C08.R8 at once; **C16 missed**; C16.R9 added (single-rounding clause and weight-source rule re-checked: inference after calibration)",
    "C16-10": "C02.R9 / C07.R8 / C08.R7 / C09 / C10.R10 at once; **C16 missed**; C16.R9",
    # round 6 (regressions of recent repairs and of recently added code)
    "C02-12": "**missed at first** by every property; C14.R6 added (a quantizer that refuses an axis of size one is only reached after quantize_weight has rewritten the axis), re-checked under C02.R10",
    "C05-12": "C06.R4 / C09.R6 at once; **C05 missed**; the move rules are re-checked under C05.R21 (a dtype move is an operation on the dequantized values)",
    "C06-12": "**missed at first** (C05 undecided: `tuple(<generator of constructors>)` not read as a sequence of results); the return classifier accepts list / tuple of a comprehension or generator, C06.R1 then reports the size taken from the first chunk",
    "C10-11": "C08.R9 at once; **C10 missed**; re-checked under C10.R12 (load_state_dict copies INTO the target's buffers, so their dtype decides)",
    "C10-12": "**missed at first** by every property; C06.R10 added (no QBits constructor / factory call takes size or stride from its grouped payload), re-checked under C10.R13",
    "C11-12": "**missed at first**: C12 / C03 raised a FALSE alarm (an in-place `buffer.copy_(v)` through a setter procedure was not seen as the store of `v`) and C09 was undecided; the path engine now reports an in-place copy into a scale buffer as the store it is and always expands setter procedures; C11.R10 added (while module outputs alias the scale buffers - C13.R6 - the buffers are replaced, never written in place)",
    "C12-11": "**missed at first** (C13 undecided: handles kept as one tuple were not recognised); C13.R1 reads tuple-valued handle attributes and has a conditional-registration clause (registration guarded by object state that __exit__ never re-arms), re-checked under C12.R7",
    # round 7 (new code: a handler, a route, a helper, a registry entry, a serialized key - added next to what exists)
    "C02-21": "**undecided at first** (`base.is_contiguous()` in the new fast path of group()); a question about strides has no answer in a layout, so the layout interpreter now explores both answers as instances - the rank-3 instance of the new branch fails `ungroup(group(x)) == x`",
    "C05-22": "**undecided at first** (`aten.mv` unclassified); matrix x vector handlers are typed like mm / bmm: the (M, 1) scale against the (M,) result is reported by C05.R14",
    "C06-21": "C05.R4 at once; **C06 missed**; a scale re-laid out by an op other than a 2-D transpose is now also reported under C06.R8",
    "C06-22": "**missed at first** by every property (no rule looked at a new handler of the QBitsTensor table); C14.R8 / C06.R11 added (the number of groups per index is (numel // shape[axis]) // group_size wherever it is computed), and a QBits handler other than moves / detach / clone is declared undecided instead of passed over",
    "C08-21": "**missed at first** by every property (a new function wrapper was not looked at); unknown wrappers are now declared undecided (C05.R8 / C08.R8) and C08.R11 added (a per-channel vector is not broadcast through a literal rank without a guard on the rank)",
    "C10-21": "C09.R9 at once; **C10 missed**; C10.R14 added (nothing reachable from _load_from_state_dict writes the scale buffers)",
    "C10-22": "C14.R3 at once; **C10 missed**: the value classifier of C10.R3 took every `self.<attr>` for a tensor; tensors are now the parameters and registered buffers only",
    "C11-21": "**missed at first** by every property; C11.R11 added (a wrapper registered for a torch function runs above autograd: it never returns a quantized tensor it assembled itself)",
    "C05-32": "**missed at first**; C05.R18 (g) added (the scale of a written-back destination cannot be null); re-expressed on the rewritten helper, demonstration of mine",
    "C05-33": "reported by the rule as it stood (C05.R16: a handler registered for an in-place op returns its first operand on every path)",
    "C05-34": "reported by the rule as it stood (C05.R4 copy_ stores)",
    "C06-31": "C05.R16 at once; **C06 missed**; C06.R12 added (the fields of an existing quantized tensor are never rebound)",
    "C10-31": "C05.R16 at once; **C10 missed**; C10.R15 = C06.R12 added",
    "C10-32": "C05.R4 at once; **C10 missed**; C10.R15 = C06.R12 (the copy_ handler's payload store is judged like any other)",
    "C11-31": "C05.R18 (a) at once; **C11 missed**; C11.R13 = C05.R18 (a) for value handlers (a saved tensor is not rewritten through a result sharing its inner tensors)",
    "C11-32": "C05.R4 / R21 / R18 at once; **C11 missed**; C11.R13 added",
    "C13-31": "C05.R4 / R21 / R18 at once; **C13 missed**; C13.R7 = C05.R18 (a) added",
    "C13-32": "C05.R4 at once; **C13 missed**; C13.R7 with a may-alias analysis (`max(a._scale, b._scale)` of the builtins returns one of its arguments; a helper's k-th returned element)",
    "C05-41": "reported by the rules as they stood (C05.R8 dispatch target, C05.R18 (e), C13.R3 global write)",
    "C05-42": "reported at first for the wrong reason (the fast path's call was read as the re-issued op); C05.R8 clause added: the mutating op applied to an inner tensor of the destination",
    "C05-43": "**missed at first**; C05.R8 clause added: a destination recorded under a test on the identity of the value",
    "C05-44": "**undecided at first**; C05.R8 clause added: the schema analysis memoised under `_schema.name`; the schema facts are read through helpers of the module",
    "C13-41": "C05.R8 at once; **C13 missed**: the call graph did not resolve names imported inside a function (the dispatch imports its helpers locally) - fixed in the effect engine, C13.R3 then reports the global write",
    "C13-42": "C10.R11 at once; **C13 missed**; C13.R8 = C10.R11 (buffer clause) added",
    "C11-22": "**undecided at first**; C11.R12 added (a sum evaluated over `range(n // k)` blocks handles the `n % k` remaining rows), with built-in positive and negative examples",
    "C13-22": "**missed at first** by every property; random draws are an effect of the call graph (they read and advance the global generator): reported by C13.R3 / C13.R4 (and C14.R7)",
    "C14-21": "C02.R9 at once; **C14 undecided**; the purity rules are re-checked under C14.R7",
    "C15-21": "**missed at first**; C15.R15 added (the packed AWQ payload is only ever copied whole: the dispatch keeps the packed form for detach / clone / moves, and no site re-wraps indexed packed data)",
    "C15-22": "**missed at first**; C15.R16 added (a handler of the shared QBitsTensor table that rebuilds the operand's own class does no arithmetic on scale / zero-point unless the operand is known to be a plain QBitsTensor)",
    "C16-21": "**missed at first** (C05 undecided); C16.R10 added (outside the quantizer pipelines no quotient has a scale in its denominator unless it is sanitised), with a built-in example",
    "C16-22": "C03.R7 / C12.R3 at once; **C16 missed**; the calibration-hook rules are re-checked under C16.R11",
    "C15-12": "C02.R3 / C16.R7 at once; **C15 missed**; the dequantizer rule is re-checked under C15.R14 (the reference side of `AWQ == standard representation`)",
}


def main():
    if len(sys.argv) > 1:
        out = open(sys.argv[1]).read()
    else:
        out = subprocess.run([sys.executable, os.path.join(HERE, "tools", "run_seeded.py")], capture_output=True, text=True).stdout
    hits = {}
    for l in out.splitlines():
        p = l.split()
        if len(p) >= 2 and p[0][:1] == "C" and "-" in p[0]:
            hits[p[0]] = (p[1], " ".join(p[2:]))
    print("| seed | change | needs | reported by | first encounter |")
    print("|---|---|---|---|---|")
    for d in sorted(glob.glob(os.path.join(HERE, "seeded", "*"))):
        if not os.path.isdir(d):
            continue
        sid = os.path.basename(d)
        m = json.load(open(os.path.join(d, "meta.json")))

        def cell(s, n):
            s = " ".join(str(s).split()).replace("|", "\\|")
            return s if len(s) <= n else s[: n - 1] + "…"

        st, rules = hits.get(sid, ("?", ""))
        rep = rules if st == "DETECTED" else f"**{st}** {rules}"
        print(f"| {sid} | {cell(m.get('summary', ''), 230)} ({cell(m.get('function', ''), 60)}) | {cell(m.get('needs_to_manifest', ''), 170)} | {rep} | {FIRST.get(sid, 'reported by the rule as it stood')} |")


if __name__ == "__main__":
    main()
