#!/bin/sh
# usage: run_baseline.sh <worktree> [jobs]   -- runs the pinned suite in the worktree, reports stable tests that no longer pass
WT="$1"; J="${2:-4}"
OUT=$(mktemp -d /tmp/qv_baseline.XXXXXX)
export OMP_NUM_THREADS=1 MKL_NUM_THREADS=1 OPENBLAS_NUM_THREADS=1
cd "$WT" && PYTHONPATH="$WT" /venv/bin/python -m pytest -q -p no:cacheprovider --timeout=900 --continue-on-collection-errors -n "$J" --junitxml="$OUT/j.xml" > "$OUT/log" 2>&1
/venv/bin/python - "$OUT/j.xml" <<'PY'
import json, sys, xml.etree.ElementTree as ET
stable=set(json.load(open('/root/.vp/BASELINE.json'))['stable_pass'])
res={}
for tc in ET.parse(sys.argv[1]).iter('testcase'):
    st='pass'
    for ch in tc:
        if ch.tag in('failure','error'): st='fail'
        elif ch.tag=='skipped': st='skip'
    res[f"{tc.get('classname')}::{tc.get('name')}"]=st
bad=[s for s in sorted(stable) if res.get(s)!='pass']
print(f"BASELINE: {len(stable)-len(bad)}/{len(stable)} stable tests pass; {len(bad)} broken")
for b in bad[:20]: print("  BROKEN", b)
PY
tail -1 "$OUT/log"; rm -rf "$OUT"
