#!/usr/bin/env python3
"""Mutation corpus runner: applies each edit of selftest/corpus_*.py to a scratch copy of the package and runs the
property's check on it.  'break' edits must be reported (exit 1, rule named); 'refactor' edits must stay silent (exit 0).
Scratch copies live under tempfile.mkdtemp() and are deleted immediately.  Results never change a property verdict."""
import argparse, concurrent.futures as cf, glob, importlib.util, json, os, shutil, subprocess, sys, tempfile

HERE = os.path.dirname(os.path.dirname(os.path.abspath(__file__)))


def load_corpus(props=None):
    out = []
    for path in sorted(glob.glob(os.path.join(HERE, "selftest", "corpus_*.py"))):
        spec = importlib.util.spec_from_file_location(os.path.basename(path)[:-3], path)
        m = importlib.util.module_from_spec(spec)
        spec.loader.exec_module(m)
        for e in m.MUTANTS:
            if props is None or e["prop"] in props:
                out.append(e)
    # independent behaviour-preserving refactoring patches (written by sub-agents): every property must stay silent
    for path in sorted(glob.glob(os.path.join(HERE, "selftest", "refactors", "*.diff"))):
        name = os.path.basename(path)[:-5]
        for pid in [f"C{i:02d}" for i in range(1, 17)]:
            if props is None or pid in props:
                out.append({"id": f"refactor-patch-{name}", "prop": pid, "kind": "refactor", "patch": path, "edits": [], "rule": None})
    # a fourth batch of deliberately exotic rewrites (NamedTuples, callable registrar classes, checks rolled into loops over literals,
    # namespace classes, mixins): no property may report a VIOLATION; an undecided verdict (exit 2) is tolerated and counted apart
    for path in sorted(glob.glob(os.path.join(HERE, "selftest", "refactors_exotic", "*.diff"))):
        name = os.path.basename(path)[:-5]
        for pid in [f"C{i:02d}" for i in range(1, 17)]:
            if props is None or pid in props:
                out.append({"id": f"exotic-patch-{name}", "prop": pid, "kind": "refactor-soft", "patch": path, "edits": [], "rule": None})
    # kept seeded changes (independent sub-agents, confirmed): each must be reported by the property it targets
    for d in sorted(glob.glob(os.path.join(HERE, "seeded", "*"))):
        mp, pp = os.path.join(d, "meta.json"), os.path.join(d, "patch.diff")
        if os.path.exists(mp) and os.path.exists(pp):
            pid = json.load(open(mp)).get("property")
            if props is None or pid in props:
                out.append({"id": f"seeded-{os.path.basename(d)}", "prop": pid, "kind": "break", "patch": pp, "edits": [], "rule": None})
    return out


def run_one(entry, repo):
    tmp = tempfile.mkdtemp(prefix="qvself_")
    try:
        for d in ("optimum", "external"):
            shutil.copytree(os.path.join(repo, d), os.path.join(tmp, d), ignore=shutil.ignore_patterns("__pycache__", "build", "*.so"))
        if entry.get("patch"):
            r = subprocess.run(["patch", "-p1", "-s", "-d", tmp, "-i", entry["patch"]], capture_output=True, text=True)
            if r.returncode != 0:
                return entry, "STALE", "patch does not apply: " + (r.stdout + r.stderr).strip()[:120]
        for rel, old, new in entry.get("edits", []):
            p = os.path.join(tmp, rel)
            s = open(p).read()
            if s.count(old) < 1:
                return entry, "STALE", f"anchor text not found in {rel}"
            s = s.replace(old, new, 1)
            open(p, "w").write(s)
            if rel.endswith(".py"):
                try:
                    compile(s, rel, "exec")
                except SyntaxError as e:
                    return entry, "STALE", f"mutant does not compile: {e}"
        env = dict(os.environ, QV_NO_EVIDENCE="1")
        r = subprocess.run([os.path.join(HERE, "check"), entry["prop"], "--tier", "quick", "--repo", tmp], capture_output=True, text=True, env=env, timeout=600)
        out = r.stdout + r.stderr
        rules = sorted({l.split("rule=")[1].split()[0] for l in out.splitlines() if l.strip().startswith("rule=")})
        if entry["kind"] == "break":
            if r.returncode == 1:
                want = entry.get("rule")
                return entry, ("DETECTED" if (want is None or want in rules) else "DETECTED-OTHER-RULE"), ",".join(rules)
            return entry, ("MISSED" if r.returncode == 0 else "UNDECIDED"), out.strip().splitlines()[-1][:200] if out.strip() else ""
        else:
            if r.returncode == 0:
                return entry, "SILENT", ""
            return entry, ("FALSE-ALARM" if r.returncode == 1 else "UNDECIDED"), ",".join(rules) or (out.strip().splitlines()[-1][:200] if out.strip() else "")
    finally:
        shutil.rmtree(tmp, ignore_errors=True)


def main():
    ap = argparse.ArgumentParser()
    ap.add_argument("--prop", action="append")
    ap.add_argument("--repo", default="/repo")
    ap.add_argument("-j", type=int, default=16)
    ap.add_argument("--json", default=None)
    a = ap.parse_args()
    corpus = load_corpus(set(a.prop) if a.prop else None)
    res = []
    with cf.ThreadPoolExecutor(a.j) as ex:
        for entry, status, info in ex.map(lambda e: run_one(e, a.repo), corpus):
            res.append({"id": entry["id"], "prop": entry["prop"], "kind": entry["kind"], "status": status, "info": info})
    bad = [r for r in res if r["status"] not in ("DETECTED", "SILENT") and not (r["kind"] == "refactor-soft" and r["status"] == "UNDECIDED")]
    for r in sorted(res, key=lambda r: (r["prop"], r["id"])):
        print(f"{r['prop']} {r['kind']:8s} {r['status']:20s} {r['id']:45s} {r['info'][:100]}")
    nb = sum(1 for r in res if r["kind"] == "break")
    nd = sum(1 for r in res if r["kind"] == "break" and r["status"].startswith("DETECTED"))
    nr = sum(1 for r in res if r["kind"] == "refactor")
    ns = sum(1 for r in res if r["kind"] == "refactor" and r["status"] == "SILENT")
    soft = [r for r in res if r["kind"] == "refactor-soft"]
    n_soft_alarm = sum(1 for r in soft if r["status"] == "FALSE-ALARM")
    n_soft_und = sum(1 for r in soft if r["status"] == "UNDECIDED")
    print(f"SELFTEST mutants_detected={nd}/{nb} refactors_silent={ns}/{nr} exotic_runs={len(soft)} exotic_false_alarms={n_soft_alarm} exotic_undecided={n_soft_und}")
    # every finding recorded as "known" must still be REPORTED on the unchanged tree (a rule that stops seeing a recorded defect went blind:
    # a relaxed assert / canonical form can do that without any corpus entry noticing)
    known = [f for f in json.load(open(os.path.join(HERE, "known_findings.json")))["findings"] if f.get("status") == "known"]
    props = sorted({f["property"] for f in known if not a.prop or f["property"] in a.prop})
    lost = []
    for pid in props:
        r = subprocess.run([os.path.join(HERE, "check"), pid, "--repo", a.repo], capture_output=True, text=True, env=dict(os.environ, QV_NO_EVIDENCE="1"))
        for f in known:
            if f["property"] == pid and f" {f['id']} " not in r.stdout:
                lost.append(f["id"])
    print(f"SELFTEST known_findings_still_reported={len([f for f in known if f['property'] in props]) - len(lost)}/{len([f for f in known if f['property'] in props])}" + (f" LOST: {lost}" if lost else ""))
    if a.json:
        json.dump({"results": res, "mutants_detected": nd, "mutants_total": nb, "refactors_silent": ns, "refactors_total": nr,
                   "exotic_runs": len(soft), "exotic_false_alarms": n_soft_alarm, "exotic_undecided": n_soft_und}, open(a.json, "w"), indent=1)
    return 0


if __name__ == "__main__":
    sys.exit(main())
