#!/usr/bin/env python3
"""Regenerates /verif/MANIFEST.json from the table below (kept valid at all times)."""
import json, os

HERE = os.path.dirname(os.path.dirname(os.path.abspath(__file__)))
props = {json.loads(l)["id"]: json.loads(l) for l in open(os.path.join(HERE, "properties.jsonl"))}

# property -> (design section, technique, decided text, trusted base)
CLAIMED = {}
NOT_APPLICABLE = {}
exec(open(os.path.join(HERE, "tools", "claims.py")).read())

checks = []
for pid in sorted(CLAIMED):
    sec, technique, text, note = CLAIMED[pid]
    checks.append({
        "property_id": pid,
        "quick_cmd": f"./check {pid} --tier quick",
        "thorough_cmd": f"./check {pid} --tier thorough",
        "evidence_file": f"/verif/evidence/{pid}.json",
        "replay_cmd_template": "./check " + pid + " --replay {path}",
        "engine": "qv",
        "level_claimed": {"category": "other", "text": text, "design_ref": sec},
        "level_note": note,
        "technique": technique,
    })
manifest = {
    "version": 1,
    "setup_cmd": "/venv/bin/python -B -c \"import ast, sys; sys.path.insert(0, '/verif'); import qv.core, qv.report; print('qv ready')\"",
    "hooks": {
        "guard": "HUGGINGFACE_QUANTO_VERIF",
        "enable": "no hooks: the checks parse /repo's sources with ast and never import or run them",
        "baseline_off_cmd": "cd /repo && /venv/bin/python -m pytest -ra -q -p no:cacheprovider --timeout=900 --continue-on-collection-errors",
        "source_commits": [],
        "add_only": True,
    },
    "engines": [
        {"name": "qv", "path": "/verif/qv", "serves_properties": sorted(CLAIMED), "kind_free_text": "repository-specific static analysis over python ast: source model and import/MRO resolution, guarded path enumeration with substitution, term normalisation, operand-kind typestate, effect analysis, layout/label/sign abstract interpreters, native-kernel field extraction"},
    ],
    "checks": checks,
    "notes": "Static-analysis family only. exit 0 = all obligations discharged (listed known findings printed as KNOWN-FINDING); exit 1 = VIOLATION; exit 2 = ANALYSIS-ERROR (construct outside the recognised idioms; never a violation line). Known findings: /verif/known_findings.json.",
    "not_applicable": [{"property_id": k, "reason": v} for k, v in sorted(NOT_APPLICABLE.items())],
}
json.dump(manifest, open(os.path.join(HERE, "MANIFEST.json"), "w"), indent=1)
missing = set(props) - set(CLAIMED) - set(NOT_APPLICABLE)
assert not missing, missing
print("claimed", sorted(CLAIMED), "n/a", sorted(NOT_APPLICABLE))
