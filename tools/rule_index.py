#!/usr/bin/env python3
"""Prints the rule index of DESIGN.md section 8b from the RULES tables of qv/props/cNN.py (the texts the checks print and record as evidence)."""
import importlib, os, sys
HERE = os.path.dirname(os.path.dirname(os.path.abspath(__file__)))
sys.path.insert(0, HERE)


def main():
    for i in range(1, 17):
        pid = f"C{i:02d}"
        mod = importlib.import_module(f"qv.props.{pid.lower()}")
        rules = getattr(mod, "RULES", {})
        print(f"**{pid}** - {getattr(mod, 'TITLE', '')}\n")
        for rid in sorted(rules, key=lambda r: int(r.split('.R')[1])):
            print(f"* `{rid}` {rules[rid]}")
        print()


if __name__ == "__main__":
    main()
