#!/bin/sh
# usage: try_patch.sh <patch.diff> <PROP> [PROP...]  -- applies the patch to /repo, runs the checks, reverts
P="$1"; shift
git -C /repo apply "$P" || exit 9
for prop in "$@"; do /verif/check "$prop" --tier quick 2>&1 | grep -E "^\[|VIOLATION|rule=|ANALYSIS" | sed 's/^/    /'; done
git -C /repo checkout -- .; git -C /repo clean -fdq optimum
git -C /repo status --short | head -3
