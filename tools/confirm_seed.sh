#!/bin/sh
# usage: confirm_seed.sh <agent out dir (contains patch.diff demo.py meta.json)> <seed name> [jobs]
# Confirms in a scratch worktree: demo passes clean, fails patched, pinned stable tests still pass patched. Then stores under /verif/seeded/<name>/.
SRC="$1"; NAME="$2"; J="${3:-8}"
WT=$(mktemp -d /tmp/seedconf.XXXXXX)
git -C /repo worktree add -q --detach "$WT" HEAD || exit 9
cd "$WT"
PYTHONPATH="$WT" timeout 600 /venv/bin/python "$SRC/demo.py" >/dev/null 2>&1; CLEAN=$?
if ! git apply "$SRC/patch.diff"; then echo "$NAME: PATCH DOES NOT APPLY"; git -C /repo worktree remove --force "$WT"; exit 8; fi
PYTHONPATH="$WT" timeout 600 /venv/bin/python "$SRC/demo.py" >/dev/null 2>&1; PATCHED=$?
BL=$(/verif/tools/run_baseline.sh "$WT" "$J" | grep BASELINE)
git -C /repo worktree remove --force "$WT"
echo "$NAME: demo_clean=$CLEAN demo_patched=$PATCHED $BL"
case "$BL" in *" 0 broken"*) OKBL=1;; *) OKBL=0;; esac
if [ "$CLEAN" = 0 ] && [ "$PATCHED" != 0 ] && [ "$OKBL" = 1 ]; then
  mkdir -p /verif/seeded/$NAME
  cp "$SRC/patch.diff" "$SRC/demo.py" /verif/seeded/$NAME/
  /venv/bin/python - "$SRC/meta.json" "/verif/seeded/$NAME/meta.json" "$CLEAN" "$PATCHED" "$BL" <<'PY'
import json, sys
m = json.load(open(sys.argv[1]))
m["confirmed"] = {"demo_clean_exit": int(sys.argv[3]), "demo_patched_exit": int(sys.argv[4]), "baseline": sys.argv[5],
                  "what_was_run": "scratch git worktree of /repo HEAD: demo.py on the clean tree, git apply patch.diff, demo.py again, then the pinned suite (pytest -n 8) compared with BASELINE.json stable_pass; worktree removed"}
json.dump(m, open(sys.argv[2], "w"), indent=1)
PY
  echo "$NAME: KEPT"
else
  echo "$NAME: REJECTED"
fi
