#!/usr/bin/env python3
"""Applies every kept seeded change (/verif/seeded/<id>/patch.diff) to /repo in turn, runs the quick check of the property it
targets (plus any extra property listed in meta.json 'also'), undoes it, and prints which rule reported it."""
import glob, json, os, subprocess, sys

HERE = os.path.dirname(os.path.dirname(os.path.abspath(__file__)))
rows = []
assert subprocess.run(["git", "-C", "/repo", "status", "--porcelain"], capture_output=True, text=True).stdout.strip() == "", "/repo has uncommitted changes"
for d in sorted(glob.glob(os.path.join(HERE, "seeded", "*"))):
    if not os.path.isdir(d):
        continue
    meta = json.load(open(os.path.join(d, "meta.json")))
    props = [meta["property"]] + meta.get("also", [])
    r = subprocess.run(["git", "-C", "/repo", "apply", os.path.join(d, "patch.diff")], capture_output=True, text=True)
    if r.returncode != 0:
        rows.append((os.path.basename(d), "PATCH-DOES-NOT-APPLY", ""))
        continue
    try:
        hits = []
        status = "MISSED"
        for p in props:
            c = subprocess.run([os.path.join(HERE, "check"), p, "--tier", "quick"], capture_output=True, text=True, env=dict(os.environ, QV_NO_EVIDENCE="1"))
            rules = sorted({l.split("rule=")[1].split()[0] for l in c.stdout.splitlines() if l.strip().startswith("rule=")})
            if c.returncode == 1:
                status = "DETECTED"
                hits.append(f"{p}:{','.join(rules)}")
            elif c.returncode == 2 and status != "DETECTED":
                status = "UNDECIDED"
                hits.append(f"{p}:exit2")
        rows.append((os.path.basename(d), status, " ".join(hits)))
    finally:
        subprocess.run(["git", "-C", "/repo", "checkout", "--", "."], check=True)
        subprocess.run(["git", "-C", "/repo", "clean", "-fdq", "optimum"], check=True)  # a seed may add files
for name, status, hits in rows:
    print(f"{name:10s} {status:10s} {hits}")
print(f"SEEDED detected={sum(1 for r in rows if r[1] == 'DETECTED')}/{len(rows)}")
