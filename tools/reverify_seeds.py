#!/usr/bin/env python3
"""Re-run the demonstration of every kept seed against /repo HEAD: it must pass on the clean tree and fail with the patch applied
(the pinned suite is not re-run here).  One scratch worktree per worker under /tmp, removed at the end.  usage: reverify_seeds.py [-j N] [names...]"""
import glob, json, os, subprocess, sys
from concurrent.futures import ThreadPoolExecutor

HERE = os.path.dirname(os.path.dirname(os.path.abspath(__file__)))
J = 8
args = sys.argv[1:]
if args[:1] == ["-j"]:
    J = int(args[1]); args = args[2:]
seeds = [d for d in sorted(glob.glob(os.path.join(HERE, "seeded", "*"))) if os.path.isdir(d) and (not args or os.path.basename(d) in args)]


def sh(*a, **k):
    return subprocess.run(a, capture_output=True, text=True, **k)


def work(i):
    wt = f"/tmp/reverify_wt{i}"
    sh("git", "-C", "/repo", "worktree", "remove", "--force", wt)
    sh("git", "-C", "/repo", "worktree", "add", "-q", "--detach", wt, "HEAD")
    out = []
    for d in seeds[i::J]:
        name = os.path.basename(d)
        env = dict(os.environ, PYTHONPATH=wt, OMP_NUM_THREADS="1")
        sh("git", "-C", wt, "checkout", "-q", "--", ".")
        try:
            c = sh("/venv/bin/python", os.path.join(d, "demo.py"), env=env, cwd=wt, timeout=900).returncode
        except subprocess.TimeoutExpired:
            c = "timeout"
        a = sh("git", "-C", wt, "apply", os.path.join(d, "patch.diff"))
        if a.returncode != 0:
            out.append((name, c, "noapply"))
            continue
        try:
            p = sh("/venv/bin/python", os.path.join(d, "demo.py"), env=env, cwd=wt, timeout=900).returncode
        except subprocess.TimeoutExpired:
            p = "timeout"
        out.append((name, c, p))
    sh("git", "-C", "/repo", "worktree", "remove", "--force", wt)
    return out


with ThreadPoolExecutor(J) as ex:
    res = [r for part in ex.map(work, range(J)) for r in part]
bad = 0
for name, c, p in sorted(res):
    ok = c == 0 and p not in (0, "noapply")
    bad += not ok
    if not ok:
        print(f"{name}: demo_clean={c} demo_patched={p}  <-- NO LONGER A VALID SEED")
print(f"REVERIFY seeds={len(res)} valid={len(res) - bad} invalid={bad}")
