import glob, os, re, subprocess, sys
BASES=["f5f6197","6f2d858","b4d5c65","a464373","f8d5375","187367f"]; NEW=subprocess.run(["git","-C","/repo","rev-parse","HEAD"],capture_output=True,text=True).stdout.strip()
WT="/tmp/rebase_wt"
subprocess.run(["git","-C","/repo","worktree","remove","--force",WT],capture_output=True)
subprocess.run(["git","-C","/repo","worktree","add","-q","--detach",WT,BASES[0]],check=True)
pats=sorted(glob.glob("/verif/selftest/refactors/*.diff")+glob.glob("/verif/selftest/refactors_exotic/*.diff")+glob.glob("/verif/seeded/*/patch.diff"))
rx=re.compile(r"\b(activations|input|gO)\.view\(")
changed=0
for p in pats:
    # does it apply to NEW as is?
    r=subprocess.run(["git","-C","/repo","apply","--check",p],capture_output=True,text=True)
    if r.returncode==0:
        continue
    ok=False
    for B in BASES:
        subprocess.run(["git","-C",WT,"checkout","-q","--","."],check=True)
        subprocess.run(["git","-C",WT,"clean","-fdq"],check=True)
        subprocess.run(["git","-C",WT,"checkout","-q","--detach",B],check=True)
        r=subprocess.run(["git","-C",WT,"apply",p],capture_output=True,text=True)
        if r.returncode==0:
            ok=True; break
    if not ok:
        print("CANNOT APPLY TO ANY BASE", p, r.stderr[:100]); continue
    for f in ("optimum/quanto/library/qbytes_mm.py","optimum/quanto/tensor/qtensor_func.py"):
        fp=os.path.join(WT,f)
        s=open(fp).read()
        # the same transformation as the two fix commits, wherever the patched text still flattens an operand with view()
        s2=s
        if f.endswith("qbytes_mm.py"):
            s2=re.sub(r"\bactivations\.view\(", "activations.reshape(", s2)
            s2=re.sub(r"\b(output_scales|scales)\.t\(\)", r"\1.flatten()", s2)
        else:
            s2=re.sub(r"\bgO\.view\((-1|\(-1)", r"gO.reshape(\1", s2)
            s2=re.sub(r"\binput\.view\((-1|\(-1)", r"input.reshape(\1", s2)
        if s2!=s: open(fp,"w").write(s2)
    # fix a464373: the activation scale buffers take the constructor's dtype / device
    fp=os.path.join(WT,"optimum/quanto/nn/qmodule.py")
    L=open(fp).read().split("\n"); out=[]; done="scale_dtype, scale_device = " in "\n".join(L)
    for l in L:
        if not done and re.match(r'\s+(for scale_name\b|self\.register_buffer\("input_scale")', l):
            ind=l[:len(l)-len(l.lstrip())]
            out.append(ind+"# The scales are created with the dtype and device of the wrapped module parameters")
            out.append(ind+'scale_dtype, scale_device = kwargs.get("dtype"), kwargs.get("device")')
            done=True
        if "register_buffer(" in l and "scale" in l:
            l=re.sub(r"torch\.ones\((size=)?\(\)\)", lambda m: f"torch.ones({m.group(1) or ''}(), dtype=scale_dtype, device=scale_device)", l)
        out.append(l)
    open(fp,"w").write("\n".join(out))
    # fix f8d5375: hook handles pushed on a per-instance stack
    fp=os.path.join(WT,"optimum/quanto/calibrate.py")
    c=open(fp).read()
    if "self.hook_handles = []" not in c:
        c=c.replace("        self.debug = debug\n","        self.debug = debug\n        # One pair of hook handles per entry: a mode object can be entered again while it is active\n        self.hook_handles = []\n",1)
    c=re.sub(r"( +)self\.pre_handle = register_module_forward_pre_hook\(self\.calibrate_input\)\n +self\.post_handle = register_module_forward_hook\(self\.calibrate_output\)\n",
             lambda m: f"{m.group(1)}self.hook_handles.append(\n{m.group(1)}    (\n{m.group(1)}        register_module_forward_pre_hook(self.calibrate_input),\n{m.group(1)}        register_module_forward_hook(self.calibrate_output),\n{m.group(1)}    )\n{m.group(1)})\n", c)
    c=re.sub(r"( +)self\.pre_handle\.remove\(\)\n +self\.post_handle\.remove\(\)\n", lambda m: f"{m.group(1)}for handle in self.hook_handles.pop():\n{m.group(1)}    handle.remove()\n", c)
    open(fp,"w").write(c)
    # fix d3663f9 (neg saturates the lowest code) and 187367f (linear dequantizes operands scaled along the contraction)
    fp=os.path.join(WT,"optimum/quanto/tensor/qbytes_ops.py")
    c=open(fp).read()
    i=c.find("def neg(")
    if i>=0 and "The lowest integer code has no positive counterpart" not in c:
        j=c.find("    out_data = op(input._data, *args, **kwargs)\n", i)
        k=c.find("\ndef ", i+5)
        if j>=0 and (k<0 or j<k):
            c=c[:j]+"    # The lowest integer code has no positive counterpart: saturate it instead of letting its negation wrap around\n    data = torch.clamp(input._data, min=-torch.iinfo(input._data.dtype).max)\n    out_data = op(data, *args, **kwargs)\n"+c[j+len("    out_data = op(input._data, *args, **kwargs)\n"):]
            open(fp,"w").write(c)
    fp=os.path.join(WT,"optimum/quanto/tensor/qtensor_func.py")
    c=open(fp).read()
    old_="def linear(func, input, other, bias=None):\n    return QTensorLinear.apply(input, other, bias)"
    if old_ in c:
        c=c.replace(old_,"def linear(func, input, other, bias=None):\n    # The scales can only be applied to the output if they are not along the contracted dimension:\n    # the input must be quantized per-tensor and the weights per-tensor or along their first axis\n    if isinstance(input, QBytesTensor) and input.axis is not None:\n        input = input.dequantize()\n    if isinstance(other, QBytesTensor) and other.axis is not None and (other.ndim != 2 or other.axis != 0):\n        other = other.dequantize()\n    return QTensorLinear.apply(input, other, bias)")
        open(fp,"w").write(c)
    # fix ebb5816 (dense operands for the torch kernels) and 80052f0 (scale product in float32)
    fp=os.path.join(WT,"optimum/quanto/library/qbytes_mm.py")
    c=open(fp).read()
    if "materialize expanded (stride 0) activations" not in c:
        i=c.find("def qbytes_int_mm(")
        j=c.find("    out_features = weights.shape[0]\n", i) if i>=0 else -1
        if j>=0:
            j+=len("    out_features = weights.shape[0]\n")
            c=c[:j]+"    # torch._int_mm reads its first operand as a dense matrix: materialize expanded (stride 0) activations\n    activations = activations.contiguous()\n"+c[j:]
    if "contiguous on their last dimension" not in c:
        i=c.find("def qbytes_int8pack_mm(")
        j=c.find("    output_scales = output_scales.flatten()\n", i) if i>=0 else -1
        if j>=0:
            j+=len("    output_scales = output_scales.flatten()\n")
            c=c[:j]+"    # and activations that are contiguous on their last dimension\n    activations = activations.contiguous()\n"+c[j:]
    open(fp,"w").write(c)
    fp=os.path.join(WT,"optimum/quanto/tensor/qbytes_ops.py")
    c=open(fp).read()
    c=re.sub(r"( +)out_data = torch\._int_mm\(input\._data, other\._data\)\n", lambda m: f"{m.group(1)}# torch._int_mm reads dense matrices: materialize expanded (stride 0) operands\n{m.group(1)}out_data = torch._int_mm(input._data.contiguous(), other._data.contiguous())\n", c)
    c=re.sub(r"( +)out_scale = \(input\._scale \* other\._scale\)\.to\(torch\.float32\)\n", lambda m: f"{m.group(1)}# The product of the scales is evaluated in float32: it can underflow in float16\n{m.group(1)}out_scale = input._scale.to(torch.float32) * other._scale.to(torch.float32)\n", c)
    c=c.replace("fp32_output = (input._scale * other._scale).to(torch.float32) * out_data","fp32_output = input._scale.to(torch.float32) * other._scale.to(torch.float32) * out_data")
    open(fp,"w").write(c)
    fp=os.path.join(WT,"optimum/quanto/tensor/qtensor_func.py")
    c=open(fp).read()
    c=re.sub(r"( +)output = torch\.ops\.quanto\.qbytes_mm\(input\._data, other\._data, input\._scale \* other\._scale\)\n", lambda m: f"{m.group(1)}# The product of the scales is evaluated in float32: it can underflow in float16\n{m.group(1)}output_scales = input._scale.to(torch.float32) * other._scale.to(torch.float32)\n{m.group(1)}output = torch.ops.quanto.qbytes_mm(input._data, other._data, output_scales).to(input._scale.dtype)\n", c)
    open(fp,"w").write(c)
    subprocess.run(["git","-C",WT,"add","-A","-N"],check=True)
    d=subprocess.run(["git","-C",WT,"diff",NEW,"--","."],capture_output=True,text=True).stdout
    open(p,"w").write(d)
    r=subprocess.run(["git","-C","/repo","apply","--check",p],capture_output=True,text=True)
    print("rebased", p.replace("/verif/",""), "ok" if r.returncode==0 else "STILL FAILS "+r.stderr[:80])
    changed+=1
subprocess.run(["git","-C",WT,"checkout","-q","--","."]); subprocess.run(["git","-C",WT,"clean","-fdq"])
subprocess.run(["git","-C","/repo","worktree","remove","--force",WT],capture_output=True)
print("changed",changed)
