#!/usr/bin/env python3
"""Rebase the kept patches (selftest/refactors*, seeded/*/patch.diff) onto /repo HEAD after a "fix:" commit.

For every patch that no longer applies to HEAD: find the most recent commit of /repo's history it applies to, commit it there in a
scratch worktree (outside /repo and /verif), cherry-pick every later commit of /repo on top (a real three-way merge), and write the
difference to HEAD back as the patch.  Conflicts are resolved by keeping the patch's side and re-inserting the lines of the fix that
carry one of the MARKERS below (the lines a fix adds); the result must parse, otherwise the patch is reported for a manual merge.
A patch that REMOVES a marker line without adding it back is reported as well (it would revert a fix instead of preserving behaviour).
Never run while selftest / run_seeded are running."""
import ast, glob, os, re, subprocess, sys

WT = "/tmp/rebase_wt"
MARKERS = ("contiguous()", "materialize expanded", "contiguous on their last dimension", "to(torch.float32) * other._scale.to(torch.float32)",
           "evaluated in float32", "reads dense matrices", ".detach()", "must not keep the graph", "hook_handles", "scale_dtype, scale_device",
           "torch.clamp(input._data, min=-torch.iinfo", "lowest integer code", "input.axis is not None:", "other.axis is not None and (other.ndim != 2",
           "torch.int16", "does not fit in 8 bits", "scale_kwargs", "not dtype.is_floating_point", "must hold one value per index", "zeropoint.shape != scale.shape",
           "other.axis not in (None, 0)", "out_scale = op(t._scale)\n", "data_ptr() % 16", ".clone()", "16-byte aligned", "in_features > 1", "inner dimension is one",
           "in_features % 16 == 0", "by blocks of 16", "isinstance(shape[0], torch.dtype)", "cannot be applied to the codes", "dtype.itemsize == 1", "src.expand(dest.size())", "zeropoint.to(scale.dtype)", "other >= 0", "input >= 0", "or other < 0", "torch.ops.aten.detach, torch.ops.aten.clone", "memory format of a clone", "isinstance(module, QModuleMixin)", "must not be quantized again", "(input._scale > 0).all()", "for positive scales only", "len(args) > 0", "when it is not decomposed", "*args, dtype=dtype", "normalizes the strides of a single row", "if dtype == torch.uint8", "applies to the unpacked values", "is_mutable", "qbytes_inplace_fallback", "write its result back", "need a dedicated fallback", "owns its scale", "owns a copy of the data", "_data.clone()", "scale.clone()", "op_overload", "torch.ops.aten.alias,", "torch.ops.aten.squeeze,", "only implement the functional one", "quantize_like", "destinations", "written_back", "fitted", "keep = ", "with torch.no_grad():", "outside of the graph of the weights", "t1.dtype == t2.dtype", "its dtype must be the dtype of both", "needs_input_grad[1] else None", "only required to evaluate the gradient of the weights", "torch.ops.aten.diagonal,", "torch.ops.aten.unfold,", "torch.ops.aten.split_with_sizes, torch.ops.aten.unbind", "torch.ops.aten.as_strided,", "untyped_storage().nbytes()", "shares its scale:", "never reduced to the range of that part", "keep = keep | (fitted <= dest._scale)")


def sh(*a, check=False):
    return subprocess.run(a, capture_output=True, text=True, check=check)


def git(*a, check=False):
    return sh("git", "-C", WT, "-c", "user.name=x", "-c", "user.email=x@x", "-c", "core.editor=true", *a, check=check)


def resolve(path):
    s = open(path).read()

    def rep(m):
        ours, theirs = m.group(1), m.group(2)
        ours_l = ours.split("\n")
        add = []
        for l in theirs.split("\n"):
            if not any(k in l for k in MARKERS) or l in ours_l:
                continue
            # a fix that only appends a call to an existing statement (`x = e` -> `x = e.detach()`): append it to the patch's version
            mm = re.match(r"(\s*)([\w.]+) = .*\.detach\(\)$", l)
            if mm:
                hit = [i for i, o in enumerate(ours_l) if re.match(r"\s*" + re.escape(mm.group(2)) + r" = ", o)]
                if hit:
                    for i in hit:
                        if not ours_l[i].rstrip().endswith(".detach()") and ours_l[i].rstrip().endswith(")"):
                            ours_l[i] = ours_l[i].rstrip() + ".detach()"
                    continue
            add.append(l)
        return "\n".join(ours_l) + ("\n".join(add) + "\n" if add else "")
    s2 = re.sub(r"<<<<<<< [^\n]*\n(.*?)=======\n(.*?)>>>>>>> [^\n]*\n", rep, s, flags=re.S)
    open(path, "w").write(s2)
    if path.endswith(".py"):
        try:
            ast.parse(s2)
        except SyntaxError as e:
            return f"syntax error after merge: {e}"
    return None


def main():
    hist = sh("git", "-C", "/repo", "rev-list", "--first-parent", "-n", "40", "HEAD").stdout.split()
    head = hist[0]
    sh("git", "-C", "/repo", "worktree", "remove", "--force", WT)
    sh("git", "-C", "/repo", "worktree", "add", "-q", "--detach", WT, head, check=True)
    pats = sorted(glob.glob("/verif/selftest/refactors/*.diff") + glob.glob("/verif/selftest/refactors_exotic/*.diff") + glob.glob("/verif/seeded/*/patch.diff")) if len(sys.argv) < 2 else sys.argv[1:]
    changed = 0
    for p in pats:
        if sh("git", "-C", "/repo", "apply", "--check", p).returncode == 0:
            continue
        base = None
        for c in hist[1:]:
            git("cherry-pick", "--abort")
            git("checkout", "-q", "--", ".")
            git("clean", "-fdq")
            git("checkout", "-q", "--detach", c, check=True)
            if git("apply", p).returncode == 0:
                base = c
                break
        name = p.replace("/verif/", "")
        if base is None:
            print("CANNOT APPLY TO ANY OF THE LAST 40 COMMITS", name)
            continue
        git("add", "-A")
        git("commit", "-qm", "patch", check=True)
        later = list(reversed(hist[: hist.index(base)]))
        problems = []
        for c in later:
            r = git("cherry-pick", c)
            if r.returncode != 0:
                for f in git("diff", "--name-only", "--diff-filter=U").stdout.split():
                    err = resolve(os.path.join(WT, f))
                    if err:
                        problems.append(f"{f}: {err}")
                git("add", "-A")
                r2 = git("cherry-pick", "--continue")
                if r2.returncode != 0:
                    git("commit", "-qm", "merge", "--allow-empty")
        d = git("diff", head, "HEAD", "--", ".").stdout
        if problems:
            print("MANUAL MERGE NEEDED", name, problems)
            continue
        open(p, "w").write(d)
        ok = sh("git", "-C", "/repo", "apply", "--check", p).returncode == 0
        removed = [l[1:].strip() for l in d.split("\n") if l.startswith("-") and not l.startswith("---") and any(k in l for k in MARKERS)]
        added = "\n".join(l[1:] for l in d.split("\n") if l.startswith("+") and not l.startswith("+++"))
        lost = [l for l in removed if not any(k in added for k in MARKERS if k in l)]
        print("rebased", name, f"(from {base[:7]})", "ok" if ok else "STILL FAILS", ("REMOVES FIX LINES: " + "; ".join(lost)[:200]) if lost else "")
        changed += 1
    git("cherry-pick", "--abort")
    git("checkout", "-q", "--", ".")
    git("clean", "-fdq")
    sh("git", "-C", "/repo", "worktree", "remove", "--force", WT)
    print("changed", changed)


if __name__ == "__main__":
    main()
