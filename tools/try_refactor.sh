#!/bin/sh
# usage: try_refactor.sh <patch.diff> [PROP...] -- applies to /repo, runs every (or the given) quick check, reverts; prints only non-clean results (deduplicated)
P="$1"; shift
PROPS="${*:-C01 C02 C03 C04 C05 C06 C07 C08 C09 C10 C11 C12 C13 C14 C15 C16}"
git -C /repo apply "$P" || { echo "PATCH DOES NOT APPLY"; exit 9; }
for prop in $PROPS; do
  out=$(QV_NO_EVIDENCE=1 /verif/check "$prop" --tier quick 2>&1); code=$?
  if [ $code -ne 0 ]; then echo "  $prop exit=$code"; echo "$out" | grep -E "rule=|ANALYSIS-ERROR" | sed -E 's/^ +//; s/\(rank [0-9].*//; s/: input per-.*: /: .. /' | cut -c1-230 | sort | uniq -c | sort -rn | head -${MAXL:-14} | sed 's/^/      /'; fi
done
git -C /repo checkout -- .; git -C /repo clean -fdq optimum
